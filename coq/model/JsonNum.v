(* JsonNum.v — numbers of property C19: IEEE-754 binary64 bit patterns <-> JSON number tokens.
   No proofs here.

   [num_val]  re-states strconv.ParseFloat(s, 64) as used by encoding/json: the decimal value of the token,
              rounded once to nearest-even with exact integer arithmetic; None when the result overflows
              (Go: *json.UnmarshalTypeError "number ... out of range").
   [fmt64]    a number token for a finite double: its EXACT decimal expansion without exponent.  Go prints the
              SHORTEST decimal that reads back (strconv 'g'-like); both spell the same number, and for integers
              below 1e21 the two spellings coincide.  None for NaN and the infinities (Go: *json.UnsupportedValueError). *)
From Coq Require Import List ZArith Bool Lia.
Import ListNotations.
From Zn.model Require Import Json.
Open Scope Z_scope.

(* ---------- bit patterns ---------- *)
Definition b_sign (b : Z) : Z := b / 2 ^ 63.
Definition b_exp (b : Z) : Z := (b / 2 ^ 52) mod 2048.
Definition b_frac (b : Z) : Z := b mod 2 ^ 52.
Definition is_bits (b : Z) : bool := (0 <=? b) && (b <? 2 ^ 64).
Definition finiteb (b : Z) : bool := negb (b_exp b =? 2047).
(* value = M * 2^E *)
Definition mant_exp (b : Z) : Z * Z :=
  if b_exp b =? 0 then (b_frac b, -1074) else (2 ^ 52 + b_frac b, b_exp b - 1075).

(* ---------- decimal -> double ---------- *)
Definition round_ne (p q : Z) : Z :=
  let (d, r) := Z.div_eucl p q in
  if 2 * r <? q then d else if q <? 2 * r then d + 1 else if Z.even d then d else d + 1.

(* p/q (p, q > 0) rounded to binary64: sign bit pattern [s] + exponent field + fraction; None = overflow.
   fl = floor (log2 (p/q)) whenever p/q >= 2^-1100 (below that the result is zero whatever fl is). *)
Definition round_core (s p q : Z) : option Z :=
  let fl := Z.log2 ((p * 2 ^ 1100) / q) - 1100 in
  let E := Z.max (fl - 52) (-1074) in
  let M := if 0 <=? E then round_ne p (q * 2 ^ E) else round_ne (p * 2 ^ (- E)) q in
  let (M', E') := if M =? 2 ^ 53 then (2 ^ 52, E + 1) else (M, E) in
  if M' <? 2 ^ 52 then Some (s + M')
  else if 971 <? E' then None
  else Some (s + (E' + 1075) * 2 ^ 52 + (M' - 2 ^ 52)).

(* (-1)^neg * m * 10^e10 *)
Definition dec2b64 (neg : bool) (m e10 : Z) : option Z :=
  let s := if neg then 2 ^ 63 else 0 in
  if m =? 0 then Some s
  else if 310 <? e10 then None                                   (* >= 1e311 *)
  else if Z.log2 m + 1 + 3 * e10 <? -1080 then Some s            (* < 2^-1080: rounds to zero *)
  else if 0 <=? e10 then round_core s (m * 10 ^ e10) 1
  else round_core s m (10 ^ (- e10)).

Definition digits_val (ds : list Z) : Z := fold_left (fun a c => a * 10 + (c - 48)) ds 0.

Definition exp_val (e : option (Z * list Z * list Z)) : Z :=
  match e with
  | None => 0
  | Some (_, sg, ds) => match sg with
                        | c :: _ => if c =? 45 then - digits_val ds else digits_val ds
                        | [] => digits_val ds
                        end
  end.

Definition num_val (t : numtok) : option Z :=
  dec2b64 (n_neg t) (digits_val (n_int t ++ n_frac t)) (exp_val (n_exp t) - Z.of_nat (length (n_frac t))).

(* ---------- double -> decimal (exact expansion) ---------- *)
(* M * 2^(-k) with the common factors of two removed (at most 53 of them) *)
Fixpoint reduce2 (n : nat) (M k : Z) : Z * Z :=
  match n with
  | O => (M, k)
  | S n' => if (k <=? 0) || Z.odd M then (M, k) else reduce2 n' (M / 2) (k - 1)
  end.

(* digits of N with the decimal point k places from the right *)
Definition place_point (ds : list Z) (k : nat) : list Z * list Z :=
  let ds' := repeat 48 (S k - length ds) ++ ds in
  let n := (length ds' - k)%nat in
  (firstn n ds', skipn n ds').

Definition num_ok64 (b : Z) : bool := is_bits b && finiteb b.

Definition fmt64 (b : Z) : option numtok :=
  if negb (num_ok64 b) then None
  else
    let (M, E) := mant_exp b in
    let neg := b_sign b =? 1 in
    if M =? 0 then Some (NumTok neg [48] [] None)
    else if 0 <=? E then Some (NumTok neg (digits_of (M * 2 ^ E)) [] None)
    else
      let (M1, k) := reduce2 53 M (- E) in
      if k =? 0 then Some (NumTok neg (digits_of M1) [] None)
      else let (ip, fp) := place_point (digits_of (M1 * 5 ^ k)) (Z.to_nat k) in
           Some (NumTok neg ip fp None).

(* ---------- the model of the two library functions with numbers filled in ---------- *)
Definition parse_json (args : list elem) : outcome := fn_parse_json num_val args.
Definition generate_json (args : list elem) : outcome := fn_generate_json fmt64 args.

(* ---------- flat encodings used by the per-run correspondence check ---------- *)
Fixpoint enc_elem (e : elem) : list Z :=
  match e with
  | ENull => [0]
  | EBool b => [1; if b then 1 else 0]
  | ENum b => [2; b]
  | EStr s => 3 :: Z.of_nat (length s) :: s
  | EArr l => 4 :: Z.of_nat (length l) :: flat_map enc_elem l
  | EDict m => 5 :: Z.of_nat (length m) ::
               flat_map (fun kv => Z.of_nat (length (fst kv)) :: fst kv ++ enc_elem (snd kv)) m
  | EOther => [6]
  end.

Definition enc_outcome (o : outcome) : list Z :=
  match o with
  | Value e => 1 :: enc_elem e
  | Exception => [2]
  | ParamError => [3]
  | Crash => [4]
  | OutOfFuel => [5]
  end.

Definition run_parse (t : list Z) : list Z := enc_outcome (parse_json [EStr t]).
Definition run_generate (d : elem) : list Z := enc_outcome (generate_json [d]).
Definition run_roundtrip (d : elem) : list Z :=
  match generate_json [d] with
  | Value t => enc_outcome (parse_json [t])
  | o => enc_outcome o
  end.
(* both at once: [generate; round trip] *)
Definition run_gen_rt (d : elem) : list (list Z) :=
  let g := generate_json [d] in
  [enc_outcome g; match g with Value t => enc_outcome (parse_json [t]) | o => enc_outcome o end].
(* number conversion alone: (neg, mantissa, exponent) -> bits or [] *)
Definition run_dec2b64 (x : bool * Z * Z) : list Z :=
  match x with (neg, m, e) => match dec2b64 neg m e with Some b => [b] | None => [] end end.
