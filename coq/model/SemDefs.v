(* SemDefs.v — syntax, values, heap, symbol stack, call stack and built-in operations of the
   integrated evaluator model (DESIGN.md section 4).  Mirrors pkg/syntax/ast.go (the fragment the
   evaluator properties speak about), pkg/runtime/{vm,scope,callframe}.go, pkg/value/*.go.
   Executable definitions only. *)
From Coq Require Import List ZArith Bool Lia.
From Zn.lib Require Import Float64.
Import ListNotations.
Open Scope Z_scope.

Definition name := Z.          (* identifiers are interned by the generator *)
Definition str := list Z.      (* text = code points *)

(* ---------- reserved identifiers (pkg/exec/globals.go, member tables of pkg/value) ---------- *)
Definition ID_THIS : name := 0.      (* 此 *)
Definition ID_TRUE : name := 1.      (* 真 *)
Definition ID_FALSE : name := 2.     (* 假 *)
Definition ID_NULL : name := 3.      (* 空 *)
Definition ID_EXC : name := 4.       (* 异常 *)
Definition ID_DISPLAY : name := 5.   (* 显示 *)
Definition ID_RANDOM : name := 6.    (* 取随机数 *)
Definition ID_NUMBER : name := 7.    (* 数值 *)
Definition is_global (x : name) : bool := (1 <=? x) && (x <=? 7).

Definition M_LEN := 20. Definition M_COUNT := 21. Definition M_FIRST := 22. Definition M_LAST := 23.
Definition M_REV := 24. Definition M_TEXT := 25. Definition M_KEYS := 26. Definition M_VALUES := 27.
Definition M_SELF := 28. Definition M_CONTENT := 29.
Definition M_APPEND := 40. Definition M_PREPEND := 41. Definition M_INSERT := 42. Definition M_INSERT2 := 43.
Definition M_SHIFT := 44. Definition M_POP := 45. Definition M_MERGE := 46. Definition M_SWAP := 47.
Definition M_CONTAINS := 48. Definition M_FIND := 49. Definition M_SET := 50. Definition M_GET := 51.
Definition M_DELETE := 52.
Definition M_INC := 53. Definition M_DEC := 54.   (* 自增 自减 *)

(* ---------- syntax ---------- *)
Inductive arith := AAdd | ASub | AMul | ADiv | AIntDiv | AMod.
Inductive logic := LAnd | LOr | LEq | LNeq | LXeq | LXneq | LGt | LGte | LLt | LLte.

Inductive expr :=
| ENum (bits : Z)
| EStr (s : str)
| EVar (x : name)
| EArr (items : list expr)
| EMap (items : list (str * expr))
| EArith (op : arith) (l r : expr)
| ELogic (op : logic) (l r : expr)
| EAssignVar (x : name) (e : expr)
| EAssignIndex (root idx e : expr)          (* A#i = e *)
| EAssignMember (root : expr) (m : name) (e : expr)   (* A之m = e *)
| EAssignThis (m : name) (e : expr)          (* 其m = e *)
| EIndex (root idx : expr)
| EMember (root : expr) (m : name)
| EThisProp (m : name)
| ECall (f : name) (args : list expr) (yield : option name)
| EMethod (root : expr) (chain : list (name * list expr)) (yield : option name)
| ENew (cls : name) (args : list expr).

Inductive stmt :=
| SDecl (pairs : list (bool * list name * expr))       (* const?, names, expression *)
| SWhile (c : expr) (body : list (Z * stmt))
| SBranch (c : expr) (t : list (Z * stmt)) (others : list (expr * list (Z * stmt))) (els : option (list (Z * stmt)))
| SIter (e : expr) (names : list name) (body : list (Z * stmt))
| SReturn (e : expr)
| SBreak
| SContinue
| SThrow (cls : name) (args : list expr)
| SExpr (e : expr)
| SEmpty
| SFunc (f : name) (params : list name) (body : list (Z * stmt)) (catches : list (name * list (Z * stmt)))
| SCtor (cls : name) (params : list name) (body : list (Z * stmt)) (catches : list (name * list (Z * stmt)))
| SClass (cls : name) (props : list (name * expr))
         (methods : list (name * (list name * list (Z * stmt) * list (name * list (Z * stmt))))).

Definition block := list (Z * stmt).                 (* (line, statement) *)
Definition catches := list (name * block).

(* ---------- values ---------- *)
Inductive msg := MText (s : str) | MRun (code : Z).   (* exception message: user text / runtime fault text *)

Inductive val :=
| VNull | VBool (b : bool) | VNum (bits : Z) | VStr (s : str)
| VList (l : nat) | VDict (l : nat) | VObj (l : nat)
| VFunc (f : nat) | VClass (c : nat) | VExc (m : msg)
| VNative (k : Z)              (* 显示 / 取随机数 *)
| VNumberType.                 (* the predefined 数值 *)

Inductive cell :=
| CList (items : list val)
| CDict (kvs : list (str * val))                  (* keyOrder with values *)
| CObj (cls : nat) (props : list (name * val)).

Record sym := { s_name : name; s_depth : nat; s_const : bool; s_val : val }.
Record frame := { f_kind : Z; f_this : option val; f_ret : option val; f_line : Z }.
(* f_kind: 1 script, 2 function, 3 exception block  (pkg/runtime/callframe.go) *)

Record fundef := { fd_params : list name; fd_body : block; fd_catch : catches }.
Inductive ctor := CtorDefault | CtorException | CtorUser (f : nat).
Record classdef := { c_name : name; c_props : list (name * val); c_methods : list (name * nat); c_ctor : ctor }.

Record state := {
  heap : list cell;
  syms : list sym;            (* top of the symbol stack first *)
  depth : nat;                (* currentDepth *)
  stack : list frame;         (* top of the call stack first *)
  funs : list fundef;
  classes : list classdef;
  out : list (list Z)         (* lines printed by 显示, latest first; [-1] = a line the model does not render *)
}.

Inductive err :=
| ERun (code : Z)             (* *zerr.RuntimeError *)
| EBreak | EContinue          (* signals *)
| EExc (v : val)              (* exception signal carrying a value *)
| EGo (m : msg).              (* a Go error of type *value.Exception (Function.Exec's conversion) *)

Inductive res (A : Type) :=
| Ok (a : A) (s : state)
| Er (e : err) (s : state)
| Fuel
| Crash (why : Z).            (* Go panic / unmodelled construct (why >= 900) *)
Arguments Ok {A} a s. Arguments Er {A} e s. Arguments Fuel {A}. Arguments Crash {A} why.

Definition bind {A B} (r : res A) (f : A -> state -> res B) : res B :=
  match r with
  | Ok a s => f a s
  | Er e s => Er e s
  | Fuel => Fuel
  | Crash w => Crash w
  end.
Notation "'let!' ( a , s ) := r 'in' k" := (bind r (fun a s => k)) (at level 200, a name, s name, r at level 100, k at level 200).

Definition UNMODELLED : Z := 999.

(* error codes (pkg/error/runtime_error.go) *)
Definition E_INDEX := 40. Definition E_KEY := 41. Definition E_UNDEF := 42. Definition E_REDECL := 43.
Definition E_CONST := 44. Definition E_NOPROP := 45. Definition E_NOMETHOD := 46. Definition E_NOTHIS := 48.
Definition E_PARAMLEN := 51. Definition E_MOST := 52. Definition E_EXACT := 53.
Definition E_EXPRTYPE := 80. Definition E_FUNCVAR := 81. Definition E_PARAMTYPE := 82.
Definition E_CMPL := 83. Definition E_CMPR := 84. Definition E_EXCTYPE := 85. Definition E_CLASSTYPE := 87.
Definition E_DIVZERO := 90.

(* ---------- state updates ---------- *)
Definition set_heap (st : state) h := {| heap := h; syms := syms st; depth := depth st; stack := stack st; funs := funs st; classes := classes st; out := out st |}.
Definition set_syms (st : state) y := {| heap := heap st; syms := y; depth := depth st; stack := stack st; funs := funs st; classes := classes st; out := out st |}.
Definition set_depth (st : state) d := {| heap := heap st; syms := syms st; depth := d; stack := stack st; funs := funs st; classes := classes st; out := out st |}.
Definition set_stack (st : state) k := {| heap := heap st; syms := syms st; depth := depth st; stack := k; funs := funs st; classes := classes st; out := out st |}.
Definition set_funs (st : state) f := {| heap := heap st; syms := syms st; depth := depth st; stack := stack st; funs := f; classes := classes st; out := out st |}.
Definition set_classes (st : state) c := {| heap := heap st; syms := syms st; depth := depth st; stack := stack st; funs := funs st; classes := c; out := out st |}.
Definition set_out (st : state) o := {| heap := heap st; syms := syms st; depth := depth st; stack := stack st; funs := funs st; classes := classes st; out := o |}.

(* ---------- heap ---------- *)
Definition alloc (st : state) (c : cell) : nat * state := (length (heap st), set_heap st (heap st ++ [c])).
Definition hget (st : state) (l : nat) : option cell := nth_error (heap st) l.
Fixpoint list_set {A} (l : list A) (n : nat) (x : A) : list A :=
  match l, n with
  | [], _ => []
  | _ :: tl, O => x :: tl
  | a :: tl, S k => a :: list_set tl k x
  end.
Definition hset (st : state) (l : nat) (c : cell) : state := set_heap st (list_set (heap st) l c).

(* ---------- pkg/runtime/scope.go + the vm.go wrappers ---------- *)
Definition begin_scope (st : state) : state := set_depth st (S (depth st)).

Fixpoint pop_deeper (d : nat) (ss : list sym) : list sym :=
  match ss with
  | s :: tl => if (d <? s_depth s)%nat then pop_deeper d tl else ss
  | [] => []
  end.
Definition end_scope (st : state) : state :=
  let d := Nat.pred (depth st) in
  set_syms (set_depth st d) (pop_deeper d (syms st)).

Fixpoint find_sym (x : name) (ss : list sym) : option sym :=
  match ss with
  | s :: tl => if s_name s =? x then Some s else find_sym x tl
  | [] => None
  end.

Definition global_val (x : name) : val :=
  if x =? ID_TRUE then VBool true else if x =? ID_FALSE then VBool false
  else if x =? ID_NULL then VNull else if x =? ID_EXC then VClass 0
  else if x =? ID_DISPLAY then VNative ID_DISPLAY else if x =? ID_RANDOM then VNative ID_RANDOM
  else VNumberType.

(* vm.FindElement *)
Definition vm_find (st : state) (x : name) : res val :=
  if is_global x then Ok (global_val x) st
  else match find_sym x (syms st) with
       | Some s => Ok (s_val s) st
       | None => Er (ERun E_UNDEF) st
       end.

(* scope.declareValue: scan from the top while depth >= currentDepth *)
Fixpoint redeclared (x : name) (d : nat) (ss : list sym) : bool :=
  match ss with
  | s :: tl =>
    if (s_depth s <? d)%nat then false
    else if (s_name s =? x) && (s_depth s =? d)%nat then true
    else redeclared x d tl
  | [] => false
  end.

Definition vm_declare (st : state) (x : name) (v : val) (c : bool) : res unit :=
  if is_global x then Er (ERun E_REDECL) st
  else if redeclared x (depth st) (syms st) then Er (ERun E_REDECL) st
  else Ok tt (set_syms st ({| s_name := x; s_depth := depth st; s_const := c; s_val := v |} :: syms st)).

(* scope.SetValue: first symbol with that name from the top *)
Fixpoint set_sym (x : name) (v : val) (ss : list sym) : option (option (list sym)) :=
  (* None = not found; Some None = constant; Some (Some ss') = updated *)
  match ss with
  | s :: tl =>
    if s_name s =? x then
      if s_const s then Some None
      else Some (Some ({| s_name := x; s_depth := s_depth s; s_const := false; s_val := v |} :: tl))
    else match set_sym x v tl with
         | Some (Some tl') => Some (Some (s :: tl'))
         | r => r
         end
  | [] => None
  end.

Definition vm_set (st : state) (x : name) (v : val) : res unit :=
  match set_sym x v (syms st) with
  | Some (Some ss) => Ok tt (set_syms st ss)
  | Some None => Er (ERun E_CONST) st
  | None => Er (ERun E_UNDEF) st
  end.

(* ---------- call stack (vm.go) ---------- *)
Definition push_frame (st : state) (kind : Z) (this : option val) : state :=
  set_stack st ({| f_kind := kind; f_this := this; f_ret := None; f_line := 0 |} :: stack st).
Definition pop_frame (st : state) : state := set_stack st (tl (stack st)).
Definition top_this (st : state) : option val := match stack st with f :: _ => f_this f | [] => None end.
Definition top_ret (st : state) : option val := match stack st with f :: _ => f_ret f | [] => None end.
Definition top_kind (st : state) : Z := match stack st with f :: _ => f_kind f | [] => 0 end.
Definition set_ret (st : state) (r : option val) : state :=
  match stack st with
  | f :: tl => set_stack st ({| f_kind := f_kind f; f_this := f_this f; f_ret := r; f_line := f_line f |} :: tl)
  | [] => st
  end.
Definition set_line (st : state) (l : Z) : state :=
  match stack st with
  | f :: tl => set_stack st ({| f_kind := f_kind f; f_this := f_this f; f_ret := f_ret f; f_line := l |} :: tl)
  | [] => st
  end.
(* the line the running frame is at (set by evalStatement before each statement) *)
Definition cur_line (st : state) : Z := match stack st with f :: _ => f_line f | [] => 0 end.
(* vm.UnwindCallStack(count): drop the frames that failed calls left above the given depth *)
Definition unwind (st : state) (count : nat) : state :=
  set_stack st (skipn (length (stack st) - count) (stack st)).

(* ---------- number text (fmt %v) for the values the generators display ---------- *)
Fixpoint digits_rev (fuel : nat) (n : Z) : list Z :=
  match fuel with
  | O => []
  | S k => if n <? 10 then [48 + n] else (48 + n mod 10) :: digits_rev k (n / 10)
  end.
Definition nat_text (n : Z) : list Z := rev (digits_rev 40 n).

(* text of a double that is an integer of magnitude < 10^15, or such a value plus .5 / .25 / .75;
   None otherwise (the display line is then not rendered by the model) *)
Definition num_text (bits : Z) : option (list Z) :=
  if negb (is_finite bits) then None else
  let q := to_int (fmul bits (of_int 4)) in                (* 4 * value, exact for the class *)
  if negb (feq (of_int q) (fmul bits (of_int 4))) then None else
  if (Z.abs q >=? 4 * 10 ^ 6) then None else
  let neg := q <? 0 in
  let a := Z.abs q in
  let ip := a / 4 in
  let fr := a mod 4 in
  let frac := if fr =? 0 then [] else if fr =? 1 then [46; 50; 53] else if fr =? 2 then [46; 53] else [46; 55; 53] in
  let body := nat_text ip ++ frac in
  (* -0 prints as "-0" in Go; handle the sign bit of zero *)
  if (a =? 0) then (if bits =? 0 then Some [48] else Some [45; 48])
  else Some ((if neg then [45] else []) ++ body).

(* ---------- String() of values (display) ---------- *)
Definition sep_comma : list Z := [65292].     (* ， *)
Fixpoint join (sep : list Z) (parts : list (list Z)) : list Z :=
  match parts with
  | [] => []
  | [p] => p
  | p :: tl => p ++ sep ++ join sep tl
  end.

Fixpoint sequence {A} (l : list (option A)) : option (list A) :=
  match l with
  | [] => Some []
  | Some a :: tl => match sequence tl with Some r => Some (a :: r) | None => None end
  | None :: _ => None
  end.

Fixpoint val_text (fuel : nat) (h : list cell) (v : val) : option (list Z) :=
  match fuel with
  | O => None
  | S k =>
    match v with
    | VNull => Some [31354]                                   (* 空 *)
    | VBool true => Some [30495]                              (* 真 *)
    | VBool false => Some [20551]                             (* 假 *)
    | VNum b => num_text b
    | VStr s => Some s
    | VList l =>
      match nth_error h l with
      | Some (CList items) =>
        match sequence (map (val_text k h) items) with
        | Some parts => Some ([91] ++ join sep_comma parts ++ [93])
        | None => None
        end
      | _ => None
      end
    | VDict l =>
      match nth_error h l with
      | Some (CDict kvs) =>
        match sequence (map (fun kv => match val_text k h (snd kv) with
                                       | Some t => Some (fst kv ++ [61] ++ t)
                                       | None => None end) kvs) with
        | Some parts => Some ([91] ++ join sep_comma parts ++ [93])
        | None => None
        end
      | _ => None
      end
    | _ => None
    end
  end.

(* ---------- value.DuplicateValue ---------- *)
Inductive dres := DOk (v : val) (s : state) | DFuel.

(* left-to-right traversal threading the state *)
Fixpoint map_state {A B} (f : state -> A -> option (B * state)) (st : state) (l : list A) : option (list B * state) :=
  match l with
  | [] => Some ([], st)
  | x :: tl =>
    match f st x with
    | Some (y, s1) =>
      match map_state f s1 tl with
      | Some (ys, s2) => Some (y :: ys, s2)
      | None => None
      end
    | None => None
    end
  end.

Fixpoint dup (fuel : nat) (st : state) (v : val) : dres :=
  match fuel with
  | O => DFuel
  | S k =>
    match v with
    | VList l =>
      match hget st l with
      | Some (CList items) =>
        match map_state (fun s x => match dup k s x with DOk x' s' => Some (x', s') | DFuel => None end) st items with
        | Some (items', st') => let (l', st'') := alloc st' (CList items') in DOk (VList l') st''
        | None => DFuel
        end
      | _ => DOk v st
      end
    | VDict l =>
      match hget st l with
      | Some (CDict kvs) =>
        match map_state (fun s kv => match dup k s (snd kv) with DOk x' s' => Some ((fst kv, x'), s') | DFuel => None end) st kvs with
        | Some (kvs', st') => let (l', st'') := alloc st' (CDict kvs') in DOk (VDict l') st''
        | None => DFuel
        end
      | _ => DOk v st
      end
    | _ => DOk v st
    end
  end.

Definition dup_res (fuel : nat) (st : state) (v : val) : res val :=
  match dup fuel st v with DOk v' st' => Ok v' st' | DFuel => Fuel end.

(* ---------- structural equality: compareLogicXEQ / value.CompareValues(CmpEq) (repaired: every key) ---- *)
Definition str_eqb (a b : str) : bool := if list_eq_dec Z.eq_dec a b then true else false.

Fixpoint assoc_str (key : str) (kvs : list (str * val)) : option val :=
  match kvs with
  | (k0, v) :: tl => if str_eqb k0 key then Some v else assoc_str key tl
  | [] => None
  end.

Inductive cres := CTrue | CFalse | CErr (code : Z) | CFuel.

Fixpoint xeq (fuel : nat) (h : list cell) (a b : val) : cres :=
  match fuel with
  | O => CFuel
  | S k =>
    match a with
    | VNull => match b with VNull => CTrue | _ => CFalse end
    | VNum x => match b with VNum y => if feq x y then CTrue else CFalse | _ => CFalse end
    | VStr x => match b with VStr y => if str_eqb x y then CTrue else CFalse | _ => CFalse end
    | VBool x => match b with VBool y => if Bool.eqb x y then CTrue else CFalse | _ => CFalse end
    | VList la =>
      match b with
      | VList lb =>
        match nth_error h la, nth_error h lb with
        | Some (CList xs), Some (CList ys) =>
          if negb (length xs =? length ys)%nat then CFalse else
          (fix go (xs ys : list val) : cres :=
             match xs, ys with
             | x :: xt, y :: yt =>
               match xeq k h x y with
               | CTrue => go xt yt
               | r => r
               end
             | _, _ => CTrue
             end) xs ys
        | _, _ => CErr UNMODELLED
        end
      | _ => CFalse
      end
    | VDict la =>
      match b with
      | VDict lb =>
        match nth_error h la, nth_error h lb with
        | Some (CDict xs), Some (CDict ys) =>
          if negb (length xs =? length ys)%nat then CFalse else
          (fix go (xs : list (str * val)) : cres :=
             match xs with
             | (key, x) :: xt =>
               match assoc_str key ys with
               | None => CFalse
               | Some y => match xeq k h x y with
                           | CTrue => go xt
                           | r => r
                           end
               end
             | [] => CTrue
             end) xs
        | _, _ => CErr UNMODELLED
        end
      | _ => CFalse
      end
    | _ => CErr E_CMPL
    end
  end.

(* ---------- flat encoding of a value (for the correspondence check) ---------- *)
Fixpoint enc_val (fuel : nat) (h : list cell) (cls_name : nat -> Z) (v : val) : list Z :=
  match fuel with
  | O => [-2]
  | S k =>
    match v with
    | VNull => [0]
    | VBool b => [1; if b then 1 else 0]
    | VNum b => [2; b]
    | VStr s => 3 :: Z.of_nat (length s) :: s
    | VList l =>
      match nth_error h l with
      | Some (CList items) => 4 :: Z.of_nat (length items) :: concat (map (enc_val k h cls_name) items)
      | _ => [-3]
      end
    | VDict l =>
      match nth_error h l with
      | Some (CDict kvs) =>
        5 :: Z.of_nat (length kvs) ::
          concat (map (fun kv => (Z.of_nat (length (fst kv)) :: fst kv) ++ enc_val k h cls_name (snd kv)) kvs)
      | _ => [-3]
      end
    | VObj l =>
      match nth_error h l with
      | Some (CObj c _) => [6; cls_name c]
      | _ => [-3]
      end
    | VFunc _ => [7]
    | VNative _ => [7]
    | VClass c => [8; cls_name c]
    | VExc (MText s) => 9 :: Z.of_nat (length s) :: s
    | VExc (MRun c) => [10; c]
    | VNumberType => [2; 0]
    end
  end.
