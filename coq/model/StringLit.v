(* C13 — executable model of the string-literal lexer of DemoHn/Zn:
     pkg/syntax/zh/tokens.go   parseString (401-459), unescapeBackTickSpecialStr (687-864),
     pkg/syntax/lexer.go       Next / Peek / Peek2 / getChar (RuneEOF past the end of the source).
   Source text, literals and values are lists of code points (Z).  Definitions only; the proofs are in
   proofs/StringLitProofs.v, the statements in props/C13.v.

   Lexer state.  The Go lexer is a cursor into Source; here the state is
       cur  : the character under the cursor (l.GetCurrentChar())
       pos  : the cursor
       rest : the characters after the cursor
   so that  Peek = hd EOF rest,  Peek2 = nth 1 rest EOF,  and  Next  moves to (hd EOF rest, pos+1, tl rest).
   As in Go, reading past the end yields RuneEOF (parseString then reports "incomplete string").

   REPAIRED CODE (repair 7640347): the escape machine stops before a CR / LF (the unfinished escape is kept literally and
   parseString reads the break and records the line); on the pinned tree it consumed the break without recording a line.
   REPAIRED CODE (findings/C13.md, fixes/C13-1.patch): the pinned tree has RuneEOF = 0, i.e. the character NUL
   (U+0000) doubles as the end-of-input mark, so a terminated literal containing a NUL is rejected as "incomplete
   string" (and a NUL outside a literal silently ends the program).  The model follows the repaired lexer, in which
   RuneEOF = -1 is not a character.
   None of the Go operations involved can panic (the only slice expression, literalBuffer[3:len-1], is
   reached with len >= 5), so there is no Crash result. *)
From Coq Require Import List ZArith Bool.
Import ListNotations.
Open Scope Z_scope.

(* ---- characters (tokens.go:38-70, lexer.go:49-53) *)
Definition BT    : Z := 0x60.    (* ` *)
Definition CR    : Z := 0x0D.
Definition LF    : Z := 0x0A.
Definition EOFc  : Z := -1.      (* syntax.RuneEOF (repaired: not a code point) *)
Definition LLIB  : Z := 0x300A.  (* 《 *)
Definition RLIB  : Z := 0x300B.  (* 》 *)
Definition LDQ1  : Z := 0x300C.  (* 「 *)
Definition RDQ1  : Z := 0x300D.  (* 」 *)
Definition LDQ2  : Z := 0x201C.  (* “ *)
Definition RDQ2  : Z := 0x201D.  (* ” *)
Definition LSQ1  : Z := 0x300E.  (* 『 *)
Definition RSQ1  : Z := 0x300F.  (* 』 *)
Definition LSQ2  : Z := 0x2018.  (* ‘ *)
Definition RSQ2  : Z := 0x2019.  (* ’ *)

Definition TypeString     : Z := 2.
Definition TypeEnumString : Z := 6.
Definition TypeLibString  : Z := 7.
Definition ErrIncompleteString : Z := 27.   (* pkg/error/syntax_error.go: ErrIncomleteString *)

Definition is_left_quote (ch : Z) : bool :=
  (ch =? LDQ1) || (ch =? LDQ2) || (ch =? LSQ1) || (ch =? LSQ2) || (ch =? LLIB).
Definition is_right_quote (ch : Z) : bool :=
  (ch =? RDQ1) || (ch =? RDQ2) || (ch =? RSQ1) || (ch =? RSQ2) || (ch =? RLIB).
Definition is_quote (ch : Z) : bool := is_left_quote ch || is_right_quote ch.

(* quoteMatchMap (tokens.go:181-187); a missing key reads as Go's zero value 0 *)
Definition quote_match (sch : Z) : Z :=
  if sch =? LDQ1 then RDQ1 else if sch =? LDQ2 then RDQ2 else
  if sch =? LSQ1 then RSQ1 else if sch =? LSQ2 then RSQ2 else
  if sch =? LLIB then RLIB else 0.

(* token type chosen at tokens.go:407-414 *)
Definition token_type (sch : Z) : Z :=
  if (sch =? LSQ1) || (sch =? LSQ2) then TypeEnumString
  else if sch =? LLIB then TypeLibString else TypeString.

Definition peek (rest : list Z) : Z := hd EOFc rest.
Definition peek2 (rest : list Z) : Z := nth 1 rest EOFc.

Fixpoint list_eqb (a b : list Z) : bool :=
  match a, b with
  | [], [] => true
  | x :: a', y :: b' => (x =? y) && list_eqb a' b'
  | _, _ => false
  end.

(* ---- the backtick escape machine (tokens.go:687-864) *)
Inductive est := sBegin | sC | sR | sL | sF | sT | sA | sB | sK | sS | sP | sU | smP | sHexNum.

Definition est_eqb (a b : est) : bool :=
  match a, b with
  | sBegin, sBegin | sC, sC | sR, sR | sL, sL | sF, sF | sT, sT | sA, sA | sB, sB | sK, sK
  | sS, sS | sP, sP | sU, sU | smP, smP | sHexNum, sHexNum => true
  | _, _ => false
  end.

(* (cch >= '0' && cch <= '9') || (cch >= 'A' && cch <= 'F') *)
Definition is_hex (c : Z) : bool := ((48 <=? c) && (c <=? 57)) || ((65 <=? c) && (c <=? 70)).
Definition hex_val (c : Z) : Z := if c <=? 57 then c - 48 else c - 55.
(* strconv.ParseInt(s, 16, 32) on 1..8 upper-case hex digits: the value, or MaxInt32 on range error
   (the error is discarded by the caller) *)
Definition parse_hex32 (ds : list Z) : Z :=
  Z.min (fold_left (fun acc d => acc * 16 + hex_val d) ds 0) 0x7FFFFFFF.

(* the `switch cch` of tokens.go:746-830 for the letter/plus cases: Some s' = state change, None = goto UNDONE_end *)
Definition esc_trans (s : est) (cch : Z) : option est :=
  if cch =? 67 (* C *) then match s with sBegin => Some sC | _ => None end else
  if cch =? 76 (* L *) then match s with sBegin | sR => Some sL | _ => None end else
  if cch =? 84 (* T *) then match s with sBegin => Some sT | _ => None end else
  if cch =? 83 (* S *) then match s with sBegin => Some sS | _ => None end else
  if cch =? 66 (* B *) then match s with sBegin | sA => Some sB | _ => None end else
  if cch =? 85 (* U *) then match s with sBegin => Some sU | _ => None end else
  if cch =? 82 (* R *) then match s with sC => Some sR | _ => None end else
  if cch =? 70 (* F *) then match s with sL => Some sF | _ => None end else
  if cch =? 65 (* A *) then match s with sT => Some sA | _ => None end else
  if cch =? 80 (* P *) then match s with sS => Some sP | _ => None end else
  if cch =? 75 (* K *) then match s with sB => Some sK | _ => None end else
  if cch =? 43 (* + *) then match s with sU => Some smP | _ => None end else
  None.

(* the documented names: `switch string(literalBuffer)` at tokens.go:833-845 *)
Definition esc_names : list (list Z * list Z) :=
  [ ([BT; 84; 65; 66; BT], [9]);        (* `TAB`  *)
    ([BT; 66; 75; BT],     [BT]);       (* `BK`   *)
    ([BT; 83; 80; BT],     [32]);       (* `SP`   *)
    ([BT; 67; 82; BT],     [CR]);       (* `CR`   *)
    ([BT; 76; 70; BT],     [LF]);       (* `LF`   *)
    ([BT; 67; 82; 76; 70; BT], [CR; LF]) (* `CRLF` *) ].

Fixpoint lookup_name (buf : list Z) (tbl : list (list Z * list Z)) : option (list Z) :=
  match tbl with
  | [] => None
  | (k, v) :: t => if list_eqb buf k then Some v else lookup_name buf t
  end.

(* case '`' (tokens.go:831-855): buf is the whole literalBuffer including both backticks.
   Some out = characters appended instead of the buffer; None = goto UNDONE_end *)
Definition esc_close (s : est) (hexCount : Z) (buf : list Z) : option (list Z) :=
  match lookup_name buf esc_names with
  | Some v => Some v
  | None =>
      if est_eqb s sHexNum && (1 <=? hexCount) && (hexCount <=? 8)
      then Some [parse_hex32 (firstn (length buf - 4)%nat (skipn 3 buf))]   (* literalBuffer[3 : len-1] *)
      else None
  end.

(* Result of the machine: (characters appended to the literal, number of l.Next() calls, remaining input).
   Entered with the cursor on the backtick: cur = BT, buf = [BT].
   One loop iteration = one pass through `for { ... }` at tokens.go:711. *)
Fixpoint esc_loop (cur : Z) (s : est) (hexCount : Z) (buf : list Z) (n : Z) (rest : list Z)
  : list Z * Z * list Z :=
  if is_quote (peek rest) then
    (* tokens.go:716-727 *)
    if (cur =? BT) && (peek2 rest =? BT) then ([peek rest], n + 2, tl (tl rest))
    else (buf, n, rest)
  else if (peek rest =? CR) || (peek rest =? LF) then
    (* tokens.go:727-729 (repair 7640347): a line break ends the escape attempt (goto UNDONE_end: the buffer is kept
       as it is, the cursor stays before the break); the break is left to parseString, which records the new line *)
    (buf, n, rest)
  else
    match rest with
    | [] => (buf, n, [])       (* end of the source: the machine does not step over it (fixes/C05-1-escape-at-eof.patch;
                                  the pinned code reads RuneEOF into the buffer and moves the cursor to len+1 — the
                                  outcome, "incomplete string", is the same) *)
    | cch :: rest' =>
        let buf' := buf ++ [cch] in
        if is_hex cch && est_eqb s smP then esc_loop cch sHexNum 1 buf' (n + 1) rest'
        else if is_hex cch && est_eqb s sHexNum then esc_loop cch sHexNum (hexCount + 1) buf' (n + 1) rest'
        else match esc_trans s cch with
             | Some s' => esc_loop cch s' hexCount buf' (n + 1) rest'
             | None =>
                 if cch =? BT then
                   match esc_close s hexCount buf' with
                   | Some out => (out, n + 1, rest')
                   | None => (buf', n + 1, rest')
                   end
                 else (buf', n + 1, rest')
             end
    end.

Definition unescape (rest : list Z) : list Z * Z * list Z := esc_loop BT sBegin 0 [BT] 0 rest.

(* ---- parseString (tokens.go:401-459) *)
Inductive lex_result :=
| LexOk (ty : Z) (lit : list Z) (endIdx : Z) (lines : list Z)  (* token type, Literal, EndIdx, StartIdx of the Lines appended *)
| LexErr (code : Z) (cursor : Z)
| OutOfFuel.

(* one iteration of the `for` at tokens.go:416; pos = cursor before `ch := l.Next()`, rest = input after the cursor *)
Fixpoint ps_loop (fuel : nat) (sch : Z) (quoteNum : Z) (lit : list Z) (lines : list Z) (pos : Z) (rest : list Z)
  : lex_result :=
  match fuel with
  | O => OutOfFuel
  | S fuel' =>
      let ch := peek rest in
      let pos1 := pos + 1 in
      let rest1 := tl rest in
      if ch =? EOFc then LexErr ErrIncompleteString pos1
      else if (ch =? CR) || (ch =? LF) then
        let p := peek rest1 in
        if ((ch =? CR) && (p =? LF)) || ((ch =? LF) && (p =? CR)) then
          (* literal = append(literal, ch); l.Next(); Lines += cursor+1; literal = append(literal, current) *)
          ps_loop fuel' sch quoteNum ((lit ++ [ch]) ++ [p]) (lines ++ [pos1 + 1 + 1]) (pos1 + 1) (tl rest1)
        else
          ps_loop fuel' sch quoteNum (lit ++ [ch]) (lines ++ [pos1 + 1]) pos1 rest1
      else if is_left_quote ch then
        ps_loop fuel' sch (if sch =? ch then quoteNum + 1 else quoteNum) (lit ++ [ch]) lines pos1 rest1
      else if is_right_quote ch then
        if quote_match sch =? ch then
          if quoteNum - 1 =? 0 then LexOk (token_type sch) lit (pos1 + 1) lines
          else ps_loop fuel' sch (quoteNum - 1) (lit ++ [ch]) lines pos1 rest1
        else ps_loop fuel' sch quoteNum (lit ++ [ch]) lines pos1 rest1
      else if ch =? BT then
        match unescape rest1 with
        | (out, n, rest2) => ps_loop fuel' sch quoteNum (lit ++ out) lines (pos1 + n) rest2
        end
      else ps_loop fuel' sch quoteNum (lit ++ [ch]) lines pos1 rest1
  end.

(* NextToken on a source whose first character is one of the five opening quotes (tokens.go:217-218):
   the literal starts at cursor 0; Lines already holds the first line (StartIdx 0, parseBeginLex). *)
Definition lex_string (src : list Z) : lex_result :=
  match src with
  | [] => LexErr 0 0
  | sch :: rest => if is_left_quote sch then ps_loop (length src) sch 1 [] [0] 0 rest else LexErr 0 0
  end.

(* string(runes): Go replaces every rune that is not a Unicode scalar value by U+FFFD when the literal
   becomes the text value (syntax.PrimeExpr.SetLiteral) *)
Definition scalar (c : Z) : bool := ((0 <=? c) && (c <? 0xD800)) || ((0xE000 <=? c) && (c <=? 0x10FFFF)).
Definition to_text (lit : list Z) : list Z := map (fun c => if scalar c then c else 0xFFFD) lit.

(* ---- the constructive encoder (specification side): how to write a text as a literal.
   A style is an opening quote o with its partner c = quote_match o. *)
Definition wrap (q : Z) : list Z := [BT; q; BT].
Definition esc_BK  : list Z := [BT; 66; 75; BT].        (* `BK`  *)
Definition esc_NUL : list Z := [BT; 85; 43; 48; BT].    (* `U+0` *)

(* how many own closing quotes the text r can supply to quotes opened before it:
   the largest excess of closing over opening quotes over all prefixes of r *)
Fixpoint surplus (o c : Z) (r : list Z) : nat :=
  match r with
  | [] => O
  | x :: r' => if x =? c then S (surplus o c r')
               else if x =? o then Nat.pred (surplus o c r')
               else surplus o c r'
  end.

(* k = number of own opening quotes written verbatim and not yet closed.
   nul = true writes NUL as `U+0` (an editor-friendly choice that also works on the pinned lexer);
   nul = false writes it verbatim like every other character. *)
Fixpoint encode_from (nul : bool) (o c : Z) (k : nat) (s : list Z) : list Z :=
  match s with
  | [] => []
  | x :: r =>
      if x =? BT then esc_BK ++ encode_from nul o c k r
      else if nul && (x =? 0) then esc_NUL ++ encode_from nul o c k r
      else if x =? c then
        match k with
        | O => wrap c ++ encode_from nul o c O r              (* no partner to the left: `c` *)
        | S k' => c :: encode_from nul o c k' r               (* closes a verbatim opening quote *)
        end
      else if x =? o then
        match surplus o c r with
        | O => wrap o ++ encode_from nul o c k r              (* no partner to the right: `o` *)
        | S _ => o :: encode_from nul o c (S k) r             (* balanced: verbatim *)
        end
      else x :: encode_from nul o c k r
  end.

Definition encode_gen (nul : bool) (o : Z) (s : list Z) : list Z := encode_from nul o (quote_match o) O s.
Definition encode (o : Z) (s : list Z) : list Z := encode_gen true o s.
Definition literal_gen (nul : bool) (o : Z) (s : list Z) : list Z := o :: encode_gen nul o s ++ [quote_match o].
Definition literal_of (o : Z) (s : list Z) : list Z := o :: encode o s ++ [quote_match o].

(* ---- helpers for the per-run correspondence check (evaluated with vm_compute) *)
(* same encoding as the Go harness: ok [1; type; end; |lit|; lit...; |lines|; lines...]  error [0; code]  fuel [3] *)
Definition run_lex (src : list Z) : list Z :=
  match lex_string src with
  | LexOk ty lit e lines => 1 :: ty :: e :: Z.of_nat (length lit) :: lit ++ Z.of_nat (length lines) :: lines
  | LexErr code _ => [0; code]
  | OutOfFuel => [3]
  end.

(* number of CR/LF in a text.  (Before repair 7640347 the escape machine could consume a CR/LF - kept in the value, but no
   line recorded - and the comparison did not judge the recorded lines of such inputs; the machine now stops before a
   line break, see esc_loop.) *)
Fixpoint count_breaks (l : list Z) : Z :=
  match l with [] => 0 | x :: t => (if (x =? CR) || (x =? LF) then 1 else 0) + count_breaks t end.

(* all strings of length n over an alphabet, first position varying slowest (same order as the harness) *)
Fixpoint all_strings (alpha : list Z) (n : nat) : list (list Z) :=
  match n with
  | O => [[]]
  | S n' => flat_map (fun a => map (cons a) (all_strings alpha n')) alpha
  end.
Definition run_block (open prefix alpha tail : list Z) (n : nat) : list (list Z) :=
  map (fun body => run_lex (open ++ prefix ++ body ++ tail)) (all_strings alpha n).

(* ---- specification-side predicates *)
(* the own-pair quotes of s are balanced when read from nesting depth k (k opening quotes pending) *)
Fixpoint balanced (o c : Z) (k : nat) (s : list Z) : bool :=
  match s with
  | [] => Nat.eqb k 0
  | x :: r => if x =? c then match k with O => false | S k' => balanced o c k' r end
              else if x =? o then balanced o c (S k) r
              else balanced o c k r
  end.
(* code points other than the backtick *)
Definition no_special (s : list Z) : bool := forallb (fun x => negb (x =? BT) && (0 <=? x)) s.

(* how to write a code point as `U+h`: n upper-case hex digits, most significant first *)
Definition hex_char (d : Z) : Z := if d <? 10 then 48 + d else 55 + d.
Fixpoint hex_digits (n : nat) (v : Z) : list Z :=
  match n with O => [] | S n' => hex_digits n' (v / 16) ++ [hex_char (v mod 16)] end.
Definition esc_uplus (v : Z) : list Z := BT :: 85 :: 43 :: hex_digits 8 v ++ [BT].
