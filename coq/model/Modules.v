(* Modules.v — executable model of Zn's module system (property C15).  Definitions only.

   Anchors (Go):  pkg/runtime/module.go  (ModuleGraph, AddModule, AddDependency, checkCircularDepedencyDFS, ParseLibName)
                  pkg/runtime/vm.go      (AllocateModule, FindModuleByName, CheckDepedency, Push/PopCallFrame,
                                          FindElement, FindElementWithModule, DeclareExternalElement, SetElement)
                  pkg/runtime/scope.go   (symbol stack with depths, declareValue, SetValue, externalRefs)
                  pkg/exec/eval.go       (EvalMainModule, evalProgram, evalExecBlock, evalStmtBlock, evalImportStmt,
                                          execAnotherModule, evalFunctionDeclareStmt, evalClassDeclareStmt)
                  pkg/exec/eval_function.go (execDirectFunction, execMethodFunction)
                  pkg/exec/interpreter.go (LoadFile finder: name -> path)

   The model follows the REPAIRED code (fixes/C15-1.patch, fixes/C15-2.patch, the method-home repair C15-3):
     C15-1  evalImportStmt records the edge importer -> imported also when the imported module is already
            registered (the pinned code records edges only in AddModule, so the edge closing a cycle was never seen);
     C15-2  FindElement / FindElementWithModule consult the current module's export table for every name that is
            not a local symbol, before the imported names (the pinned code pops a module's own methods/types from
            its symbol stack when its body ends, so an imported method could not reach its home module's other
            methods and types);
     C15-3  a method value records the module it was defined in (compileFunction: SetModule(current module)) and
            execDirectFunction runs the call frame in THAT module, whatever the name the method is called by (the code
            before the repair used the module reported for the NAME, so an imported method kept in a variable of the
            importer, 令算 = 求, ran in the importer's module and could not see its home module's other methods).

   Abstractions (stated, validated by the per-run differential check):
     - a module source is abstracted to its import statements, its top-level method/type definitions and the list of
       top-level statements that matter (marker prints, calls, probes, assignments, declarations, object use);
     - text is a list of code points (Z); paths are lists of segments (OS-level path cleaning is not modelled,
       names are assumed to have non-empty segments without '/');
     - externalRefs (symbol index -> module id) is stored in the symbol itself: imports are declared first in a fresh
       scope at depth 0 and are never popped, so the index-keyed map and the field agree;
     - Go map iteration orders (export table in "import all", adjacency map in the DFS) are explicit parameters;
     - names of the global table (显示 ...) are never used as method/type names;
     - 令x = 1 on a name already declared in the same block is error 43 in the model (the pinned evalVarDeclareStmt
       swallows that error: property C06's subject; the generator never redeclares in one block);
     - EStart / EDone are ghost events of the model's trace (never compared with the implementation). *)
From Coq Require Import List ZArith Bool Arith Lia.
Import ListNotations.

Definition name := list Z.

Fixpoint name_eqb (a b : name) : bool :=
  match a, b with
  | [], [] => true
  | x :: a', y :: b' => Z.eqb x y && name_eqb a' b'
  | _, _ => false
  end.

(* ------------------------------------------------------------------ ParseLibName, LoadFile finder *)

Definition c_at : Z := 64.      (* '@' *)
Definition c_dash : Z := 45.    (* '-' *)
Definition dot_zn : name := [46; 122; 110]%Z.   (* ".zn" *)
Definition main_module_name : name := [20027; 27169; 22359]%Z.  (* 主模块 *)

(* strings.Split(s, sep) for a one-character separator *)
Fixpoint split_on (sep : Z) (s : name) : list name :=
  match s with
  | [] => [[]]
  | c :: r =>
      if Z.eqb c sep then [] :: split_on sep r
      else match split_on sep r with
           | [] => [[c]]
           | h :: t => (c :: h) :: t
           end
  end.

Fixpoint join_with (sep : Z) (segs : list name) : name :=
  match segs with
  | [] => []
  | [s] => s
  | s :: r => s ++ sep :: join_with sep r
  end.

Inductive libtype := LibStd | LibCustom.

(* ParseLibName: (type, LibPath) *)
Definition parse_lib_name (n : name) : libtype * list name :=
  match n with
  | c :: r => if Z.eqb c c_at then (LibStd, split_on c_dash r) else (LibCustom, split_on c_dash n)
  | [] => (LibCustom, split_on c_dash n)
  end.

(* finder: dirs[len-1] += ".zn"; path = rootDir / dirs...   (a path is the list of its segments under rootDir) *)
Fixpoint add_zn (segs : list name) : list name :=
  match segs with
  | [] => []
  | [s] => [s ++ dot_zn]
  | s :: r => s :: add_zn r
  end.

Definition path := list name.
Definition path_of_name (n : name) : path := add_zn (snd (parse_lib_name n)).

Fixpoint path_eqb (a b : path) : bool :=
  match a, b with
  | [], [] => true
  | x :: a', y :: b' => name_eqb x y && path_eqb a' b'
  | _, _ => false
  end.

(* ------------------------------------------------------------------ sources *)

Inductive stmt :=
| SMark (z : Z)                      (* （显示：“K<z>”）                      prints one marker line *)
| SCall (f : name)                   (* （f）                                 direct method call *)
| SRef (x : name)                    (* x                                     evaluate a name (is it visible?) *)
| SAssign (x : name)                 (* x = 1 *)
| SDeclare (x : name)                (* 令x = 1 *)
| SNewCall (x c m : name)            (* 令x = （新建c） ; 以x（m）            create an object and call a method *)
| SAlias (x f : name).               (* 令x = f                               a variable holding the value of a name *)

Inductive def :=
| DFun (n : name) (body : list stmt)                       (* 如何n？ *)
| DClass (n : name) (methods : list (name * list stmt)).   (* 定义n： 如何m？ ... *)

Record import := mkImport { i_name : name; i_items : list name }.   (* 导入“name” [之 a、b] *)

Record source := mkSource { s_imports : list import; s_defs : list def; s_body : list stmt }.

Definition filesys := list (path * source).
Fixpoint fs_find (fs : filesys) (p : path) : option source :=
  match fs with
  | [] => None
  | (q, s) :: r => if path_eqb q p then Some s else fs_find r p
  end.

Definition libraries := list (name * list name).    (* registered library name (with '@') -> exported names *)
Fixpoint lib_find (ls : libraries) (n : name) : option (list name) :=
  match ls with
  | [] => None
  | (q, e) :: r => if name_eqb q n then Some e else lib_find r n
  end.

(* ------------------------------------------------------------------ values, scopes, VM *)

Inductive value :=
| VFun (home : nat) (body : list stmt)      (* a method and the module it was defined in (Function.module) *)
| VClass (cn : name) (methods : list (name * list stmt))
| VObj (cn : name) (methods : list (name * list stmt))
| VNum
| VNative.

Record sym := mkSym { y_name : name; y_depth : nat; y_const : bool; y_val : value; y_ext : option nat }.
Record scope := mkScope { sc_syms : list sym (* newest first *); sc_depth : nat }.
Definition empty_scope := mkScope [] 0.

Record modrec := mkMod { m_name : name; m_src : option source; m_exports : list (name * value) }.

(* trace events: marker lines (observable) and two ghost events used only to state theorems *)
Inductive ev :=
| EMark (z : Z)        (* a marker line was printed *)
| EStart (id : nat)    (* module id finished its imports and starts its own definitions and statements *)
| EDone (id : nat).    (* module id's program ended normally (a library: its exports were registered) *)

Record vm := mkVM {
  v_mods : list modrec;           (* ModuleGraph.modules; moduleNameMap = first index with that name *)
  v_edges : list (nat * nat);     (* ModuleGraph.graph *)
  v_cs : option nat;              (* csModuleID (None = -1) *)
  v_frames : list nat;            (* module id of every call frame, top first *)
  v_scopes : list (nat * scope);  (* valueStack *)
  v_trace : list ev               (* events so far, newest first *)
}.

Definition init_vm := mkVM [] [] None [] [] [].

Definition set_mods st x := mkVM x (v_edges st) (v_cs st) (v_frames st) (v_scopes st) (v_trace st).
Definition set_edges st x := mkVM (v_mods st) x (v_cs st) (v_frames st) (v_scopes st) (v_trace st).
Definition set_cs st x := mkVM (v_mods st) (v_edges st) x (v_frames st) (v_scopes st) (v_trace st).
Definition set_frames st x := mkVM (v_mods st) (v_edges st) (v_cs st) x (v_scopes st) (v_trace st).
Definition set_scopes st x := mkVM (v_mods st) (v_edges st) (v_cs st) (v_frames st) x (v_trace st).
Definition emit st z := mkVM (v_mods st) (v_edges st) (v_cs st) (v_frames st) (v_scopes st) (z :: v_trace st).

Inductive res :=
| Ok
| Err (code : Z)      (* *zerr.RuntimeError with this code *)
| ErrExc              (* a runtime error raised inside a method: Function.Exec rewraps it as an exception without code *)
| OutOfFuel.

Definition E_NameNotDefined : Z := 42.
Definition E_NameRedeclared : Z := 43.
Definition E_AssignToConstant : Z := 44.
Definition E_MethodNotFound : Z := 46.
Definition E_ExactParams : Z := 53.
Definition E_ModuleNotFound : Z := 60.
Definition E_CircularDependency : Z := 63.
Definition E_LibraryNotFound : Z := 64.
Definition E_InvalidFuncVariable : Z := 81.
Definition E_InvalidParamType : Z := 82.

(* --- module graph *)

Fixpoint find_mod_from (ms : list modrec) (n : name) (k : nat) : option nat :=
  match ms with
  | [] => None
  | m :: r => if name_eqb (m_name m) n then Some k else find_mod_from r n (S k)
  end.
Definition find_module (st : vm) (n : name) : option nat := find_mod_from (v_mods st) n 0.   (* GetIDFromName *)

Definition get_mod (st : vm) (id : nat) : modrec := nth id (v_mods st) (mkMod [] None []).

(* ModuleGraph.AddModule(srcModuleID, name, program) *)
Definition add_module (st : vm) (src : option nat) (n : name) (prog : option source) : vm * nat :=
  let id := length (v_mods st) in
  let st1 := set_mods st (v_mods st ++ [mkMod n prog []]) in
  let st2 := match src with
             | Some s => set_edges st1 (v_edges st1 ++ [(s, id)])
             | None => st1
             end in
  (st2, id).

(* VM.AllocateModule *)
Definition allocate_module (st : vm) (n : name) (prog : option source) : vm * nat :=
  match find_module st n with
  | Some id => (st, id)
  | None => let '(st1, id) := add_module st (v_cs st) n prog in (set_cs st1 (Some id), id)
  end.

(* ModuleGraph.AddDependency through the repaired evalImportStmt (C15-1) *)
Definition add_dependency (st : vm) (dep : nat) : vm :=
  match v_cs st with
  | Some s => set_edges st (v_edges st ++ [(s, dep)])
  | None => st       (* cannot happen during an import: some frame is always active *)
  end.

(* --- checkCircularDepedencyDFS *)

Definition succs (es : list (nat * nat)) (u : nat) : list nat :=      (* adj[u] *)
  map snd (filter (fun e => Nat.eqb (fst e) u) es).

Fixpoint nat_mem (x : nat) (l : list nat) : bool :=
  match l with [] => false | y :: r => Nat.eqb x y || nat_mem x r end.

Fixpoint dedup (l : list nat) (acc : list nat) : list nat :=
  match l with
  | [] => rev acc
  | x :: r => if nat_mem x acc then dedup r acc else dedup r (x :: acc)
  end.

Definition adj_keys (es : list (nat * nat)) : list nat :=             (* keys of adj: every endpoint *)
  dedup (flat_map (fun e => [fst e; snd e]) es) [].

Definition colors := nat -> nat.        (* Go map[int]int with zero default: 0 unvisited, 1 visiting, 2 done *)
Definition set_color (c : colors) (u k : nat) : colors := fun x => if Nat.eqb x u then k else c x.

(* None = out of fuel *)
Fixpoint dfs (fuel : nat) (es : list (nat * nat)) (c : colors) (u : nat) : option (bool * colors) :=
  match fuel with
  | O => None
  | S f =>
      (fix loop (vs : list nat) (c : colors) : option (bool * colors) :=
         match vs with
         | [] => Some (false, set_color c u 2)
         | v :: r =>
             if Nat.eqb (c v) 1 then Some (true, c)
             else if Nat.eqb (c v) 0 then
               match dfs f es c v with
               | None => None
               | Some (true, c') => Some (true, c')
               | Some (false, c') => loop r c'
               end
             else loop r c
         end) (succs es u) (set_color c u 1)
  end.

Fixpoint dfs_all (fuel : nat) (es : list (nat * nat)) (c : colors) (nodes : list nat) : option bool :=
  match nodes with
  | [] => Some false
  | n :: r =>
      if Nat.eqb (c n) 0 then
        match dfs fuel es c n with
        | None => None
        | Some (true, _) => Some true
        | Some (false, c') => dfs_all fuel es c' r
        end
      else dfs_all fuel es c r
  end.

(* [ord] = iteration order of `for node := range adj` *)
Definition check_circular (ord : list nat -> list nat) (es : list (nat * nat)) : option bool :=
  dfs_all (S (length (adj_keys es))) es (fun _ => 0) (ord (adj_keys es)).

(* --- scopes *)

Fixpoint get_scope_in (l : list (nat * scope)) (id : nat) : scope :=
  match l with
  | [] => empty_scope
  | (k, s) :: r => if Nat.eqb k id then s else get_scope_in r id
  end.
Fixpoint has_scope_in (l : list (nat * scope)) (id : nat) : bool :=
  match l with
  | [] => false
  | (k, _) :: r => Nat.eqb k id || has_scope_in r id
  end.
Fixpoint put_scope_in (l : list (nat * scope)) (id : nat) (s : scope) : list (nat * scope) :=
  match l with
  | [] => [(id, s)]
  | (k, s0) :: r => if Nat.eqb k id then (k, s) :: r else (k, s0) :: put_scope_in r id s
  end.

Definition cur_id (st : vm) : nat := match v_cs st with Some i => i | None => 0 end.
Definition cur_scope (st : vm) : scope := get_scope_in (v_scopes st) (cur_id st).
Definition set_cur_scope (st : vm) (s : scope) : vm := set_scopes st (put_scope_in (v_scopes st) (cur_id st) s).

Definition begin_scope (s : scope) : scope := mkScope (sc_syms s) (S (sc_depth s)).
Fixpoint pop_deeper (l : list sym) (d : nat) : list sym :=
  match l with
  | [] => []
  | y :: r => if Nat.ltb d (y_depth y) then pop_deeper r d else l
  end.
Definition end_scope (s : scope) : scope :=
  let d := Nat.pred (sc_depth s) in mkScope (pop_deeper (sc_syms s) d) d.

Fixpoint scope_lookup (l : list sym) (x : name) : option sym :=
  match l with
  | [] => None
  | y :: r => if name_eqb (y_name y) x then Some y else scope_lookup r x
  end.

(* Scope.declareValue's redeclaration test *)
Fixpoint redeclared (l : list sym) (d : nat) (x : name) : bool :=
  match l with
  | [] => false
  | y :: r => if Nat.ltb (y_depth y) d then false
              else if name_eqb (y_name y) x && Nat.eqb (y_depth y) d then true
              else redeclared r d x
  end.

Definition scope_declare (s : scope) (x : name) (v : value) (isconst : bool) (ext : option nat) : option scope :=
  if redeclared (sc_syms s) (sc_depth s) x then None
  else Some (mkScope (mkSym x (sc_depth s) isconst v ext :: sc_syms s) (sc_depth s)).

Inductive setres := SetOk (l : list sym) | SetConst | SetUndefined.
Fixpoint scope_set (l : list sym) (x : name) (v : value) : setres :=
  match l with
  | [] => SetUndefined
  | y :: r =>
      if name_eqb (y_name y) x then
        if y_const y then SetConst else SetOk (mkSym (y_name y) (y_depth y) false v (y_ext y) :: r)
      else match scope_set r x v with
           | SetOk r' => SetOk (y :: r')
           | other => other
           end
  end.

Fixpoint assoc_find {A} (l : list (name * A)) (x : name) : option A :=
  match l with
  | [] => None
  | (k, v) :: r => if name_eqb k x then Some v else assoc_find r x
  end.

(* VM.FindElementWithModule (repaired, C15-2): local symbols (depth > 0) first, then the current module's own
   methods and types (its export table), then the imported names (depth 0) *)
Definition find_with_module (st : vm) (x : name) : option (value * nat) :=
  let own := assoc_find (m_exports (get_mod st (cur_id st))) x in
  match scope_lookup (sc_syms (cur_scope st)) x with
  | Some y =>
      match (if Nat.eqb (y_depth y) 0 then own else None) with
      | Some v => Some (v, cur_id st)
      | None => Some (y_val y, match y_ext y with Some m => m | None => cur_id st end)
      end
  | None => match own with
            | Some v => Some (v, cur_id st)
            | None => None
            end
  end.
Definition find_element (st : vm) (x : name) : option value :=
  match find_with_module st x with Some (v, _) => Some v | None => None end.

(* VM.PushCallFrame / PopCallFrame *)
Definition push_frame (st : vm) (id : nat) : vm :=
  let st1 := set_cs (set_frames st (id :: v_frames st)) (Some id) in
  if has_scope_in (v_scopes st1) id then st1 else set_scopes st1 (v_scopes st1 ++ [(id, empty_scope)]).
Definition pop_frame (st : vm) : vm :=
  let fr := tl (v_frames st) in
  set_cs (set_frames st fr) (match fr with [] => None | id :: _ => Some id end).

(* VM.DeclareConstElement / DeclareElement / DeclareExternalElement on the current scope *)
Definition declare (st : vm) (x : name) (v : value) (isconst : bool) (ext : option nat) : option vm :=
  match scope_declare (cur_scope st) x v isconst ext with
  | Some s => Some (set_cur_scope st s)
  | None => None
  end.

(* Module.AddExportValue on module id *)
Fixpoint upd_nth {A} (l : list A) (k : nat) (f : A -> A) : list A :=
  match l, k with
  | [], _ => []
  | a :: r, O => f a :: r
  | a :: r, S k' => a :: upd_nth r k' f
  end.
Definition add_export (st : vm) (id : nat) (x : name) (v : value) : option vm :=
  match assoc_find (m_exports (get_mod st id)) x with
  | Some _ => None
  | None => Some (set_mods st (upd_nth (v_mods st) id (fun m => mkMod (m_name m) (m_src m) (m_exports m ++ [(x, v)]))))
  end.

(* ------------------------------------------------------------------ statements *)

Definition wrap_exc (r : res) : res :=         (* Function.Exec: RuntimeError -> Exception *)
  match r with Err _ => ErrExc | other => other end.

(* evalExecBlock of a method body on the current (already pushed) frame:
   BeginScope; [此]; evalStmtBlock -> evalPureStmtBlock: BeginScope; statements; EndScope; EndScope *)
Definition in_exec_block (st : vm) (this : option value) (run : vm -> res * vm) : res * vm :=
  let st1 := set_cur_scope st (begin_scope (cur_scope st)) in
  let st2 := match this with
             | Some v => match declare st1 [27492]%Z v true None with Some s => s | None => st1 end
             | None => st1
             end in
  let st3 := set_cur_scope st2 (begin_scope (cur_scope st2)) in
  let '(r, st4) := run st3 in
  let st5 := set_cur_scope st4 (end_scope (end_scope (cur_scope st4))) in
  (r, st5).

(* the reserved method name under which a type's custom constructor body is kept: 新建 *)
Definition CTOR : name := [26032; 24314]%Z.

Definition exec_stmt_with (callee : vm -> list stmt -> res * vm) (st : vm) (s : stmt) : res * vm :=
  match s with
  | SMark z => (Ok, emit st (EMark z))
  | SRef x => match find_element st x with Some _ => (Ok, st) | None => (Err E_NameNotDefined, st) end
  | SAssign x =>
      match scope_set (sc_syms (cur_scope st)) x VNum with
      | SetOk l => (Ok, set_cur_scope st (mkScope l (sc_depth (cur_scope st))))
      | SetConst => (Err E_AssignToConstant, st)
      | SetUndefined => (Err E_NameNotDefined, st)
      end
  | SDeclare x =>
      match declare st x VNum false None with
      | Some st' => (Ok, st')
      | None => (Err E_NameRedeclared, st)
      end
  | SCall f =>                                            (* execDirectFunction *)
      match find_with_module st f with
      | None => (Err E_NameNotDefined, st)
      | Some (v, m) =>
          (* a method runs on a frame of the module it was defined in, whatever the name it is called by (C15-3);
             any other value: the frame of the module reported for the name is pushed, then the type assertion fails *)
          match v with
          | VFun h body =>
              let st1 := push_frame st h in
              let '(r, st2) := in_exec_block st1 None (fun s => callee s body) in
              match r with
              | Ok => (Ok, pop_frame st2)
              | other => (wrap_exc other, st2)
              end
          | _ => (Err E_InvalidFuncVariable, push_frame st m)
          end
      end
  | SAlias x f =>                                         (* evalVarDeclareStmt: the value of the name f, then declare x *)
      match find_element st f with
      | None => (Err E_NameNotDefined, st)
      | Some v =>
          match declare st x v false None with             (* a copy of a method is the same method (same home) *)
          | Some st' => (Ok, st')
          | None => (Err E_NameRedeclared, st)
          end
      end
  | SNewCall x c m =>
      match find_element st c with                        (* evalNewObject *)
      | None => (Err E_NameNotDefined, st)
      | Some (VClass cn ms) =>
          (* a custom constructor (如何新建c？, kept in the method table under the reserved name CTOR) runs first, on a
             frame of the type's home module — evalConstructorDeclareStmt captured that module when it was declared *)
          let '(rc, stc) :=
            match assoc_find ms CTOR with
            | None => (Ok, st)
            | Some cbody =>
                match find_with_module st cn with
                | None => (Err E_NameNotDefined, st)
                | Some (_, hm) =>
                    let st1 := push_frame st hm in
                    let '(r, st2) := in_exec_block st1 (Some (VObj cn ms)) (fun s => callee s cbody) in
                    match r with
                    | Ok => (Ok, pop_frame st2)
                    | other => (wrap_exc other, st2)
                    end
                end
            end in
          match rc with
          | Ok =>
          match declare stc x (VObj cn ms) false None with
          | None => (Err E_NameRedeclared, stc)
          | Some st0 =>
              match find_with_module st0 cn with           (* execMethodFunction *)
              | None => (Err E_NameNotDefined, st0)
              | Some (_, hm) =>
                  let st1 := push_frame st0 hm in
                  match assoc_find ms m with
                  | None => (Err E_MethodNotFound, st1)
                  | Some body =>
                      let '(r, st2) := in_exec_block st1 (Some (VObj cn ms)) (fun s => callee s body) in
                      match r with
                      | Ok => (Ok, pop_frame st2)
                      | other => (wrap_exc other, st2)
                      end
                  end
              end
          end
          | other => (other, stc)
          end
      | Some VNum => (Err E_ExactParams, st)          (* a number is constructable, with exactly one parameter *)
      | Some _ => (Err E_InvalidParamType, st)
      end
  end.

Fixpoint exec_stmts (fuel : nat) (st : vm) (ss : list stmt) {struct fuel} : res * vm :=
  match fuel with
  | O => (OutOfFuel, st)
  | S f =>
      (fix go (st : vm) (ss : list stmt) : res * vm :=
         match ss with
         | [] => (Ok, st)
         | s :: r =>
             let '(rs, st1) := exec_stmt_with (exec_stmts f) st s in
             match rs with
             | Ok => go st1 r
             | other => (other, st1)
             end
         end) st ss
  end.

(* ------------------------------------------------------------------ imports *)

Section Load.
  Variable fs : filesys.
  Variable libs : libraries.
  Variable ord_exports : list (name * value) -> list (name * value).   (* range over the export map *)
  Variable ord_nodes : list nat -> list nat.                           (* range over the adjacency map *)

  (* declare a list of (name, value) as external constants of module [ext] *)
  Fixpoint declare_externals (st : vm) (ext : nat) (l : list (name * value)) : res * vm :=
    match l with
    | [] => (Ok, st)
    | (x, v) :: r =>
        match declare st x v true (Some ext) with
        | Some st' => declare_externals st' ext r
        | None => (Err E_NameRedeclared, st)
        end
    end.

  (* the listed names that the module exports, in list order (others are skipped silently, as in the code) *)
  Fixpoint select_exports (exps : list (name * value)) (items : list name) : list (name * value) :=
    match items with
    | [] => []
    | x :: r => match assoc_find exps x with
                | Some v => (x, v) :: select_exports exps r
                | None => select_exports exps r
                end
    end.

  Definition import_symbols (st : vm) (ext : nat) (items : list name) : res * vm :=
    let exps := m_exports (get_mod st ext) in
    match items with
    | [] => declare_externals st ext (ord_exports exps)
    | _ => declare_externals st ext (select_exports exps items)
    end.

  (* CheckDepedency *)
  Definition check_dependency (st : vm) (n : name) : res :=
    match find_module st n with
    | Some _ => match check_circular ord_nodes (v_edges st) with
                | Some true => Err E_CircularDependency
                | Some false => Ok
                | None => OutOfFuel
                end
    | None => Ok
    end.

  Fixpoint add_lib_exports (st : vm) (id : nat) (l : list name) : vm :=
    match l with
    | [] => st
    | x :: r => add_lib_exports (match add_export st id x VNative with Some s => s | None => st end) id r
    end.

  (* evalImportStmt; [loader] = execution of another module's program (evalProgram on a pushed frame) *)
  Definition eval_import_with (loader : nat -> source -> vm -> res * vm) (st : vm) (imp : import) : res * vm :=
    let n := i_name imp in
    match fst (parse_lib_name n) with
    | LibStd =>
        let fresh := match find_module st n with Some _ => false | None => true end in
        let '(st1, id) := allocate_module st n None in
        match lib_find libs n with
        | None => (Err E_LibraryNotFound, st1)
        | Some exps =>
            let st2 := push_frame st1 id in
            let st3 := add_lib_exports st2 id exps in
            let st4 := pop_frame st3 in
            let st5 := if fresh then emit st4 (EDone id) else st4 in      (* ghost *)
            import_symbols st5 id (i_items imp)
        end
    | LibCustom =>
        let loaded :=
          match find_module st n with
          | Some id => (Ok, add_dependency st id, id)                    (* C15-1 *)
          | None =>
              match fs_find fs (path_of_name n) with                     (* execAnotherModule *)
              | None => (Err E_ModuleNotFound, st, 0)
              | Some src =>
                  let '(st1, id) := allocate_module st n (Some src) in
                  let st2 := push_frame st1 id in
                  let '(r, st3) := loader id src st2 in
                  match r with
                  | Ok => (Ok, pop_frame st3, id)
                  | other => (other, st3, id)
                  end
              end
          end in
        let '(r, st1, id) := loaded in
        match r with
        | Ok => match check_dependency st1 n with
                | Ok => import_symbols st1 id (i_items imp)
                | other => (other, st1)
                end
        | other => (other, st1)
        end
    end.

  (* hoisting of definitions in evalStmtBlock: DeclareConstElement, then AddExportValue on the current module
     [id] (program_tail passes cur_id); a method records that module as its home *)
  Fixpoint declare_defs (st : vm) (id : nat) (ds : list def) : res * vm :=
    match ds with
    | [] => (Ok, st)
    | d :: r =>
        let '(x, v) := match d with
                       | DFun n body => (n, VFun id body)     (* compileFunction: SetModule(current module) *)
                       | DClass n ms => (n, VClass n ms)
                       end in
        match declare st x v true None with
        | None => (Err E_NameRedeclared, st)
        | Some st1 =>
            match add_export st1 id x v with
            | None => (Err E_NameRedeclared, st1)
            | Some st2 => declare_defs st2 id r
            end
        end
    end.

  (* the import block of evalProgram: stop at the first failing import *)
  Fixpoint imports_loop (ld : nat -> source -> vm -> res * vm) (st : vm) (l : list import) : res * vm :=
    match l with
    | [] => (Ok, st)
    | imp :: rest =>
        let '(r, st') := eval_import_with ld st imp in
        match r with
        | Ok => imports_loop ld st' rest
        | other => (other, st')
        end
    end.

  (* evalExecBlock: BeginScope; evalStmtBlock: definitions; evalPureStmtBlock: BeginScope; statements; EndScope x2 *)
  Definition program_tail (f : nat) (id : nat) (src : source) (st1 : vm) : res * vm :=
    let st2 := set_cur_scope (emit st1 (EStart id)) (begin_scope (cur_scope st1)) in
    let '(r2, st3) := declare_defs st2 (cur_id st2) (s_defs src) in
    match r2 with
    | Ok =>
        let st4 := set_cur_scope st3 (begin_scope (cur_scope st3)) in
        let '(r3, st5) := exec_stmts f st4 (s_body src) in
        let st6 := set_cur_scope st5 (end_scope (end_scope (cur_scope st5))) in
        match r3 with
        | Ok => (Ok, emit st6 (EDone id))
        | other => (other, st6)
        end
    | other => (other, st3)
    end.

  (* evalProgram of module [id] on its (already pushed) frame *)
  Fixpoint run_program (fuel : nat) (id : nat) (src : source) (st : vm) {struct fuel} : res * vm :=
    match fuel with
    | O => (OutOfFuel, st)
    | S f =>
        let '(r, st1) := imports_loop (run_program f) st (s_imports src) in
        match r with
        | Ok => program_tail f id src st1
        | other => (other, st1)
        end
    end.

  (* Interpreter.Execute + EvalMainModule on the file [mainfile] of the root directory *)
  Definition run_main (fuel : nat) (mainfile : path) : res * vm :=
    match fs_find fs mainfile with
    | None => (Err E_ModuleNotFound, init_vm)
    | Some src =>
        let '(st1, id) := allocate_module init_vm main_module_name (Some src) in
        let st2 := push_frame st1 id in
        let '(r, st3) := run_program fuel id src st2 in
        match r with
        | Ok => (Ok, pop_frame st3)
        | other => (other, st3)
        end
    end.
End Load.

(* ------------------------------------------------------------------ observation used by the correspondence check *)

Fixpoint marks_of (tr : list ev) : list Z :=
  match tr with
  | [] => []
  | EMark z :: r => z :: marks_of r
  | _ :: r => marks_of r
  end.

Definition id_exports (l : list (name * value)) := l.
Definition id_nodes (l : list nat) := l.

Definition encode_res (r : res) : list Z :=
  match r with
  | Ok => [0]
  | Err c => [1; c]
  | ErrExc => [2]
  | OutOfFuel => [3]
  end%Z.

(* result code(s) followed by the marker trace in printing order *)
Definition observe (fs : filesys) (libs : libraries) (mainfile : path) (fuel : nat) : list (list Z) :=
  let '(r, st) := run_main fs libs id_exports id_nodes fuel mainfile in
  [encode_res r; rev (marks_of (v_trace st))].
