(* SemRun.v — flat encoding of the outcome of a model run, for the correspondence check. *)
From Coq Require Import List ZArith Bool.
From Zn.model Require Import SemDefs Sem.
Import ListNotations.
Open Scope Z_scope.

Definition cls_name_of (st : state) (c : nat) : Z :=
  match nth_error (classes st) c with Some cd => c_name cd | None => -5 end.

Definition enc_msg (m : msg) : list Z :=
  match m with MText s => s | MRun c => [-1; c] end.

(* the text WrapRuntimeError extracts from an uncaught exception value *)
Definition exc_content (st : state) (v : val) : list Z :=
  match v with
  | VExc m => enc_msg m
  | VObj l =>
    match hget st l with
    | Some (CObj _ props) => match assoc_name M_CONTENT props with Some (VStr s) => s | _ => [] end
    | _ => []
    end
  | _ => []
  end.

Definition final_obs (st : state) : list Z :=
  [Z.of_nat (length (stack st)); Z.of_nat (depth st); Z.of_nat (length (syms st))].

(* the call chain as the error display walks it: outermost frame first, (kind, current line) of each frame *)
Definition chain_obs (st : state) : list Z :=
  concat (map (fun f => [f_kind f; f_line f]) (rev (stack st))).

(* [head; final; chain; display lines in order] *)
Definition enc_run (r : res val) : list (list Z) :=
  match r with
  | Ok v st => (0 :: enc_val 64 (heap st) (cls_name_of st) v) :: final_obs st :: chain_obs st :: rev (out st)
  | Er e st =>
    (match e with
     | ERun c => [1; c]
     | EExc v => 2 :: exc_content st v
     | EGo m => 3 :: enc_msg m
     | EBreak => [4; 3]
     | EContinue => [4; 2]
     end) :: final_obs st :: chain_obs st :: rev (out st)
  | Fuel => [[7]; []; []]
  | Crash w => [[8; w]; []; []]
  end.
