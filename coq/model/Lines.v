(* Lines.v — physical source lines (property C18): the specification of where lines start, Lexer.FindLineIdx, and the
   display width of the text before the error column.  Executable definitions only. *)
From Coq Require Import List ZArith Bool.
Import ListNotations.
Open Scope Z_scope.

Definition is_break (c : Z) : bool := (c =? 10) || (c =? 13).

(* Line starts after the first line (which starts at 0). CR, LF, CRLF and LFCR each end one line.
   [pending] = the break character just seen whose partner (the other break character) may still follow. *)
Fixpoint starts_from (pending : option Z) (pos : Z) (src : list Z) : list Z :=
  match src with
  | [] => match pending with Some _ => [pos] | None => [] end
  | c :: tl =>
    match pending with
    | None => if is_break c then starts_from (Some c) (pos + 1) tl else starts_from None (pos + 1) tl
    | Some p =>
      if is_break c then
        if c =? p then pos :: starts_from (Some c) (pos + 1) tl          (* a second break of the same kind: an empty line *)
        else (pos + 1) :: starts_from None (pos + 1) tl                  (* CRLF / LFCR: one line end *)
      else pos :: starts_from None (pos + 1) tl
    end
  end.

Definition phys_starts (src : list Z) : list Z := 0 :: starts_from None 0 src.

(* Lexer.FindLineIdx(cursor, 0) over the recorded line starts (pkg/syntax/lexer.go:118-127) *)
Fixpoint find_line_from (i : Z) (starts : list Z) (cursor : Z) : Z :=
  match starts with
  | _ :: ((s1 :: _) as tl) => if cursor <? s1 then i else find_line_from (i + 1) tl cursor
  | _ => i
  end.
Definition find_line (starts : list Z) (cursor : Z) : Z := find_line_from 0 starts cursor.

(* the 0-based physical line of an offset, by the specification *)
Definition line_of (src : list Z) (cursor : Z) : Z := find_line (phys_starts src) cursor.
