(* Json.v — executable model for property C19 (JSON generation and parsing are faithful inverses).
   No proofs here.

   Part 1  RFC 8259 codec: what encoding/json must do for the values Zn hands it.
           Texts are lists of Unicode code points (a Zn text value is a sequence of scalar values;
           the UTF-8 layer between a Go string and its runes is C17's subject).
           [render : jv -> list Z] follows Go's json.Marshal spelling (compact, HTML-safe escapes,
            / , short escapes \b \f \n \r \t, \u00XX for other controls, everything else raw);
           [parse : list Z -> option jv] accepts the RFC 8259 grammar, objects are ORDERED lists of members.
           A number is kept as its token (sign, integer digits, fraction digits, exponent part) so that the
           codec is purely syntactic; its value as a double is JsonNum.v's business.
   Part 2  the mapping element <-> plain value <-> JSON value of pkg/common/elem2json.go (repaired code:
           fixes/C19-1.patch members in keyOrder / document order, fixes/C19-2.patch empty list is []),
           and the entry points of stdlib/json/json.go. *)
From Coq Require Import List ZArith Bool Lia.
Import ListNotations.
Open Scope Z_scope.

(* ====================================================================== *)
(* Part 1: codec                                                          *)
(* ====================================================================== *)

Record numtok := NumTok {
  n_neg  : bool;                              (* leading '-' *)
  n_int  : list Z;                            (* "0" or [1-9][0-9]* *)
  n_frac : list Z;                            (* digits after '.', [] = no fraction part *)
  n_exp  : option (Z * list Z * list Z)       (* 'e'|'E', [] | ['+'] | ['-'], digits *)
}.

Inductive jv :=
| JNull
| JBool (b : bool)
| JNum (t : numtok)
| JStr (s : list Z)
| JArr (l : list jv)
| JObj (m : list (list Z * jv)).

(* ---------- characters ---------- *)
Definition is_ws (c : Z) : bool := (c =? 32) || (c =? 9) || (c =? 10) || (c =? 13).
Definition is_digit (c : Z) : bool := (48 <=? c) && (c <=? 57).
Definition is_digit19 (c : Z) : bool := (49 <=? c) && (c <=? 57).
Definition scalarb (c : Z) : bool :=
  ((0 <=? c) && (c <? 0xD800)) || ((0xE000 <=? c) && (c <? 0x110000)).

Definition hexd (n : Z) : Z := if n <? 10 then 48 + n else 87 + n.     (* lower case, as Go *)
Definition hexval (c : Z) : option Z :=
  if (48 <=? c) && (c <=? 57) then Some (c - 48)
  else if (97 <=? c) && (c <=? 102) then Some (c - 87)
  else if (65 <=? c) && (c <=? 70) then Some (c - 55)
  else None.
Definition hex4 (a b c d : Z) : option Z :=
  match hexval a, hexval b, hexval c, hexval d with
  | Some x, Some y, Some z, Some w => Some (x * 4096 + y * 256 + z * 16 + w)
  | _, _, _, _ => None
  end.

(* ---------- rendering ---------- *)
Definition esc_u (c : Z) : list Z :=
  [92; 117; hexd (c / 4096); hexd ((c / 256) mod 16); hexd ((c / 16) mod 16); hexd (c mod 16)].

(* encoding/json appendString with escapeHTML = true (json.Marshal) *)
Definition esc_char (c : Z) : list Z :=
  if c =? 34 then [92; 34]
  else if c =? 92 then [92; 92]
  else if c =? 8 then [92; 98]
  else if c =? 12 then [92; 102]
  else if c =? 10 then [92; 110]
  else if c =? 13 then [92; 114]
  else if c =? 9 then [92; 116]
  else if c <? 32 then esc_u c
  else if (c =? 60) || (c =? 62) || (c =? 38) then esc_u c
  else if (c =? 0x2028) || (c =? 0x2029) then esc_u c
  else [c].

Definition render_str (s : list Z) : list Z := 34 :: flat_map esc_char s ++ [34].

Definition render_exp (e : option (Z * list Z * list Z)) : list Z :=
  match e with
  | None => []
  | Some (ec, sg, ds) => ec :: sg ++ ds
  end.
Definition render_frac (f : list Z) : list Z := match f with [] => [] | _ => 46 :: f end.
Definition render_num (t : numtok) : list Z :=
  (if n_neg t then [45] else []) ++ n_int t ++ render_frac (n_frac t) ++ render_exp (n_exp t).

Fixpoint join (l : list (list Z)) : list Z :=
  match l with
  | [] => []
  | x :: r => match r with [] => x | _ => x ++ 44 :: join r end
  end.

Definition lit_null : list Z := [110; 117; 108; 108].
Definition lit_true : list Z := [116; 114; 117; 101].
Definition lit_false : list Z := [102; 97; 108; 115; 101].

Fixpoint render (v : jv) : list Z :=
  match v with
  | JNull => lit_null
  | JBool true => lit_true
  | JBool false => lit_false
  | JNum t => render_num t
  | JStr s => render_str s
  | JArr l => 91 :: join (map render l) ++ [93]
  | JObj m => 123 :: join (map (fun kv => render_str (fst kv) ++ 58 :: render (snd kv)) m) ++ [125]
  end.

(* ---------- well-formed values (the domain of the round-trip theorem) ---------- *)
Definition all_digits (ds : list Z) : bool := forallb is_digit ds.
Definition wf_int (ip : list Z) : bool :=
  match ip with
  | [] => false
  | c :: ds => ((c =? 48) && match ds with [] => true | _ => false end) || (is_digit19 c && all_digits ds)
  end.
Definition wf_exp (e : option (Z * list Z * list Z)) : bool :=
  match e with
  | None => true
  | Some (ec, sg, ds) =>
    ((ec =? 101) || (ec =? 69)) &&
    match sg with [] => true | [c] => (c =? 43) || (c =? 45) | _ => false end &&
    match ds with [] => false | _ => all_digits ds end
  end.
Definition wf_num (t : numtok) : bool := wf_int (n_int t) && all_digits (n_frac t) && wf_exp (n_exp t).

Fixpoint wf (v : jv) : bool :=
  match v with
  | JNull | JBool _ => true
  | JNum t => wf_num t
  | JStr s => forallb scalarb s
  | JArr l => forallb wf l
  | JObj m => forallb (fun kv => forallb scalarb (fst kv) && wf (snd kv)) m
  end.

Fixpoint depth (v : jv) : nat :=
  match v with
  | JArr l => S (fold_right (fun x a => Nat.max (depth x) a) O l)
  | JObj m => S (fold_right (fun kv a => Nat.max (depth (snd kv)) a) O m)
  | _ => O
  end.

(* ---------- parsing ---------- *)
Inductive pres (A : Type) :=
| POk (a : A) (rest : list Z)
| PErr
| PFuel.
Arguments POk {A}. Arguments PErr {A}. Arguments PFuel {A}.

Fixpoint skip_ws (s : list Z) : list Z :=
  match s with
  | c :: r => if is_ws c then skip_ws r else s
  | [] => []
  end.

Fixpoint span_digits (s : list Z) : list Z * list Z :=
  match s with
  | c :: r => if is_digit c then let (ds, r') := span_digits r in (c :: ds, r') else ([], s)
  | [] => ([], [])
  end.

Fixpoint strip_prefix (p s : list Z) : option (list Z) :=
  match p with
  | [] => Some s
  | a :: p' => match s with
               | b :: s' => if a =? b then strip_prefix p' s' else None
               | [] => None
               end
  end.

Definition is_high (u : Z) : bool := (0xD800 <=? u) && (u <? 0xDC00).
Definition is_low (u : Z) : bool := (0xDC00 <=? u) && (u <? 0xE000).
Definition combine_sur (hi lo : Z) : Z := 0x10000 + (hi - 0xD800) * 1024 + (lo - 0xDC00).
Definition RuneError : Z := 0xFFFD.

Definition simple_escape (e : Z) : option Z :=
  if e =? 34 then Some 34 else if e =? 92 then Some 92 else if e =? 47 then Some 47
  else if e =? 98 then Some 8 else if e =? 102 then Some 12 else if e =? 110 then Some 10
  else if e =? 114 then Some 13 else if e =? 116 then Some 9 else None.

Definition ocons (c : Z) (o : option (list Z * list Z)) : option (list Z * list Z) :=
  match o with Some (l, r) => Some (c :: l, r) | None => None end.

(* body of a string, after the opening quote; returns the characters and the text after the closing quote.
   A \u escape that is a surrogate without its partner becomes U+FFFD and only that escape is consumed
   (encoding/json unquote). *)
Fixpoint parse_str (s : list Z) : option (list Z * list Z) :=
  match s with
  | [] => None
  | c :: r =>
    if c =? 34 then Some ([], r)
    else if c =? 92 then
      match r with
      | [] => None
      | e :: r1 =>
        if e =? 117 then
          match r1 with
          | h1 :: h2 :: h3 :: h4 :: r2 =>
            match hex4 h1 h2 h3 h4 with
            | None => None
            | Some u =>
              if is_high u then
                match r2 with
                | b :: u' :: g1 :: g2 :: g3 :: g4 :: r3 =>
                  if (b =? 92) && (u' =? 117) then
                    match hex4 g1 g2 g3 g4 with
                    | Some lo => if is_low lo then ocons (combine_sur u lo) (parse_str r3)
                                 else ocons RuneError (parse_str r2)
                    | None => ocons RuneError (parse_str r2)
                    end
                  else ocons RuneError (parse_str r2)
                | _ => ocons RuneError (parse_str r2)
                end
              else if is_low u then ocons RuneError (parse_str r2)
              else ocons u (parse_str r2)
            end
          | _ => None
          end
        else match simple_escape e with
             | Some ch => ocons ch (parse_str r1)
             | None => None
             end
      end
    else if c <? 32 then None
    else ocons c (parse_str r)
  end.

Definition parse_frac (s : list Z) : option (list Z * list Z) :=
  match s with
  | c :: r => if c =? 46 then
                let (fs, r') := span_digits r in
                match fs with [] => None | _ => Some (fs, r') end
              else Some ([], s)
  | [] => Some ([], s)
  end.

Definition parse_exp (s : list Z) : option (option (Z * list Z * list Z) * list Z) :=
  match s with
  | c :: r => if (c =? 101) || (c =? 69) then
                let (sg, r1) := match r with
                                | x :: r0 => if (x =? 43) || (x =? 45) then ([x], r0) else ([], r)
                                | [] => ([], r)
                                end in
                let (es, r2) := span_digits r1 in
                match es with [] => None | _ => Some (Some (c, sg, es), r2) end
              else Some (None, s)
  | [] => Some (None, s)
  end.

Definition parse_num (s : list Z) : option (numtok * list Z) :=
  let (neg, s1) := match s with
                   | c :: r => if c =? 45 then (true, r) else (false, s)
                   | [] => (false, s)
                   end in
  match s1 with
  | [] => None
  | c :: r =>
    let ip := if c =? 48 then Some ([c], r)
              else if is_digit19 c then (let (ds, r') := span_digits r in Some (c :: ds, r'))
              else None in
    match ip with
    | None => None
    | Some (ds, r1) =>
      match parse_frac r1 with
      | None => None
      | Some (fs, r2) =>
        match parse_exp r2 with
        | None => None
        | Some (ex, r3) => Some (NumTok neg ds fs ex, r3)
        end
      end
    end
  end.

Definition pmap {A B} (f : A -> B) (p : pres A) : pres B :=
  match p with POk a r => POk (f a) r | PErr => PErr | PFuel => PFuel end.

(* elements of a non-empty array; [s] stands at the beginning of a value *)
Fixpoint parse_elems (pv : list Z -> pres jv) (n : nat) (s : list Z) : pres (list jv) :=
  match n with
  | O => PFuel
  | S n' =>
    match pv s with
    | POk v r =>
      match skip_ws r with
      | c :: r' =>
        if c =? 44 then pmap (cons v) (parse_elems pv n' r')
        else if c =? 93 then POk [v] r'
        else PErr
      | [] => PErr
      end
    | PErr => PErr
    | PFuel => PFuel
    end
  end.

(* members of a non-empty object; [s] stands before the (optional white space and) key *)
Fixpoint parse_members (pv : list Z -> pres jv) (n : nat) (s : list Z) : pres (list (list Z * jv)) :=
  match n with
  | O => PFuel
  | S n' =>
    match skip_ws s with
    | c :: r =>
      if c =? 34 then
        match parse_str r with
        | Some (k, r1) =>
          match skip_ws r1 with
          | c2 :: r2 =>
            if c2 =? 58 then
              match pv r2 with
              | POk v r3 =>
                match skip_ws r3 with
                | c3 :: r4 =>
                  if c3 =? 44 then pmap (cons (k, v)) (parse_members pv n' r4)
                  else if c3 =? 125 then POk [(k, v)] r4
                  else PErr
                | [] => PErr
                end
              | PErr => PErr
              | PFuel => PFuel
              end
            else PErr
          | [] => PErr
          end
        | None => PErr
        end
      else PErr
    | [] => PErr
    end
  end.

Definition of_opt {A} (o : option (A * list Z)) : pres A :=
  match o with Some (a, r) => POk a r | None => PErr end.

(* one value, leading white space allowed.  fuel bounds the nesting depth; the loops over elements and
   members are bounded by the length of the remaining text. *)
Fixpoint parse_value (fuel : nat) (s : list Z) : pres jv :=
  match fuel with
  | O => PFuel
  | S f =>
    match skip_ws s with
    | [] => PErr
    | c :: r =>
      if c =? 123 then
        match skip_ws r with
        | c' :: r' => if c' =? 125 then POk (JObj []) r'
                      else pmap JObj (parse_members (parse_value f) (S (length r)) r)
        | [] => PErr
        end
      else if c =? 91 then
        match skip_ws r with
        | c' :: r' => if c' =? 93 then POk (JArr []) r'
                      else pmap JArr (parse_elems (parse_value f) (S (length r)) r)
        | [] => PErr
        end
      else if c =? 34 then pmap JStr (of_opt (parse_str r))
      else if c =? 116 then pmap (fun _ => JBool true) (of_opt (option_map (fun r => (tt, r)) (strip_prefix lit_true (c :: r))))
      else if c =? 102 then pmap (fun _ => JBool false) (of_opt (option_map (fun r => (tt, r)) (strip_prefix lit_false (c :: r))))
      else if c =? 110 then pmap (fun _ => JNull) (of_opt (option_map (fun r => (tt, r)) (strip_prefix lit_null (c :: r))))
      else pmap JNum (of_opt (parse_num (c :: r)))
    end
  end.

(* a JSON text: ws value ws, nothing else *)
Definition parse_text (s : list Z) : pres jv :=
  match parse_value (S (length s)) s with
  | POk v r => match skip_ws r with [] => POk v [] | _ => PErr end
  | PErr => PErr
  | PFuel => PFuel
  end.

Definition parse (s : list Z) : option jv :=
  match parse_text s with POk v _ => Some v | _ => None end.

(* ====================================================================== *)
(* Part 2: elements, plain values, entry points                           *)
(* ====================================================================== *)

(* Zn values as far as JSON is concerned.  Numbers are IEEE-754 binary64 bit patterns;
   a dictionary is its members in keyOrder; EOther = function, object, class, exception, native value. *)
Inductive elem :=
| ENull
| EBool (b : bool)
| ENum (bits : Z)
| EStr (s : list Z)
| EArr (l : list elem)
| EDict (m : list (list Z * elem))
| EOther.

(* Go `any` values that occur in elem2json.go *)
Inductive intkind := KUint | KUint8 | KUint16 | KUint32 | KUint64 | KInt | KInt8 | KInt16 | KInt32 | KInt64.
Inductive plain :=
| PNil
| PBool (b : bool)
| PFloat (bits : Z)
| PStr (s : list Z)
| PRunes (s : list Z)
| PInt (k : intkind) (n : Z)
| PSlice (l : list plain)
| PObj (m : list (list Z * plain))        (* orderedObject: members in keyOrder *)
| PMap (m : list (list Z * plain)).       (* Go map[string]any: no order of its own *)

(* value.HashMap.AppendKVPair: overwrite in place, or append a new key *)
Fixpoint list_eqb (a b : list Z) : bool :=
  match a, b with
  | [], [] => true
  | x :: a', y :: b' => (x =? y) && list_eqb a' b'
  | _, _ => false
  end.

Fixpoint hm_append {A} (m : list (list Z * A)) (k : list Z) (v : A) : list (list Z * A) :=
  match m with
  | [] => [(k, v)]
  | (k', v') :: r => if list_eqb k' k then (k', v) :: r else (k', v') :: hm_append r k v
  end.

Definition hm_of_pairs {A} (kvs : list (list Z * A)) : list (list Z * A) :=
  fold_left (fun m kv => hm_append m (fst kv) (snd kv)) kvs [].

(* JSON-representable values: no function/object, every number accepted by [num_ok] (finite), texts and keys are
   sequences of Unicode scalar values, keys of a dictionary pairwise different (HashMap invariant). *)
Fixpoint nodupb (ks : list (list Z)) : bool :=
  match ks with
  | [] => true
  | k :: r => negb (existsb (fun k' => list_eqb k k') r) && nodupb r
  end.

Fixpoint representable (num_ok : Z -> bool) (e : elem) : bool :=
  match e with
  | ENull | EBool _ => true
  | ENum b => num_ok b
  | EStr s => forallb scalarb s
  | EArr l => forallb (representable num_ok) l
  | EDict m => nodupb (map fst m) &&
               forallb (fun kv => forallb scalarb (fst kv) && representable num_ok (snd kv)) m
  | EOther => false
  end.

(* a number somewhere inside that [num_ok] rejects (NaN, +-Inf) *)
Fixpoint has_bad_num (num_ok : Z -> bool) (e : elem) : bool :=
  match e with
  | ENum b => negb (num_ok b)
  | EArr l => existsb (has_bad_num num_ok) l
  | EDict m => existsb (fun kv => has_bad_num num_ok (snd kv)) m
  | _ => false
  end.

(* buildPlainValueFromElement (repaired: dictionary members in keyOrder, empty list is a non-nil slice) *)
Fixpoint build_plain (e : elem) : plain :=
  match e with
  | ENull => PNil
  | EStr s => PStr s
  | EBool b => PBool b
  | ENum b => PFloat b
  | EArr l => PSlice (map build_plain l)
  | EDict m => PObj (map (fun kv => (fst kv, build_plain (snd kv))) m)
  | EOther => PNil
  end.

(* The code BEFORE fixes/C19-1.patch, kept for the refutation example: a dictionary became a Go map, which
   encoding/json writes with its keys sorted (byte order of UTF-8 = code point order). *)
Fixpoint build_plain_pinned (e : elem) : plain :=
  match e with
  | ENull => PNil
  | EStr s => PStr s
  | EBool b => PBool b
  | ENum b => PFloat b
  | EArr l => PSlice (map build_plain_pinned l)
  | EDict m => PMap (map (fun kv => (fst kv, build_plain_pinned (snd kv))) m)
  | EOther => PNil
  end.

Fixpoint key_leb (a b : list Z) : bool :=
  match a, b with
  | [], _ => true
  | _ :: _, [] => false
  | x :: a', y :: b' => if x <? y then true else if y <? x then false else key_leb a' b'
  end.
Fixpoint insert_member {A} (kv : list Z * A) (l : list (list Z * A)) : list (list Z * A) :=
  match l with
  | [] => [kv]
  | kv' :: r => if key_leb (fst kv) (fst kv') then kv :: l else kv' :: insert_member kv r
  end.
Definition sort_members {A} (l : list (list Z * A)) : list (list Z * A) := fold_right insert_member [] l.

(* decimal digits of a non-negative integer, for the %v fallback *)
Fixpoint digits_fuel (fuel : nat) (n : Z) (acc : list Z) : list Z :=
  match fuel with
  | O => acc
  | S f => if n <? 10 then (48 + n) :: acc
           else let (q, r) := Z.div_eucl n 10 in digits_fuel f q ((48 + r) :: acc)
  end.
Definition digits_of (n : Z) : list Z := digits_fuel (S (Z.to_nat (Z.log2 n))) n [].
Definition show_int (n : Z) : list Z := if n <? 0 then 45 :: digits_of (- n) else digits_of n.

(* buildElementFromPlainValue.  The integer cases other than int64 have EMPTY bodies in the Go switch, so control
   leaves the switch and reaches the text fallback fmt.Sprintf("%v").  [i2f] = float64(int64), [ord] = the order in
   which Go iterates the map (any permutation), [show] = "%v" of a value that has no case (orderedObject). *)
Section BuildElem.
  Variable i2f : Z -> Z.
  Variable ord : list (list Z * elem) -> list (list Z * elem).
  Variable show : plain -> list Z.

  Fixpoint build_elem (p : plain) : elem :=
    match p with
    | PNil => ENull
    | PInt KInt64 n => ENum (i2f n)
    | PInt _ n => EStr (show_int n)
    | PFloat b => ENum b
    | PRunes s => EStr s
    | PStr s => EStr s
    | PBool b => EBool b
    | PMap m => EDict (hm_of_pairs (ord (map (fun kv => (fst kv, build_elem (snd kv))) m)))
    | PSlice l => EArr (map build_elem l)
    | PObj m => EStr (show p)
    end.
End BuildElem.

(* scalars handed over by the token stream never need the three parameters *)
Definition build_scalar (p : plain) : elem := build_elem (fun n => n) (fun m => m) (fun _ => []) p.

(* ---------- encoding/json.Marshal on plain values ---------- *)
Section Marshal.
  Variable fmt_num : Z -> option numtok.     (* float64 -> number token; None = unsupported value (NaN, +-Inf) *)
  Variable sort_keys : list (list Z * jv) -> list (list Z * jv).   (* Go maps are written with sorted keys *)

  Fixpoint sequence {A} (l : list (option A)) : option (list A) :=
    match l with
    | [] => Some []
    | Some a :: r => match sequence r with Some r' => Some (a :: r') | None => None end
    | None :: _ => None
    end.

  Definition int_tok (n : Z) : numtok := NumTok (n <? 0) (digits_of (Z.abs n)) [] None.

  Fixpoint marshal (p : plain) : option jv :=
    match p with
    | PNil => Some JNull
    | PBool b => Some (JBool b)
    | PFloat b => option_map JNum (fmt_num b)
    | PStr s => Some (JStr s)
    | PRunes s => Some (JArr (map (fun c => JNum (int_tok c)) s))      (* []rune is a slice of int32 *)
    | PInt _ n => Some (JNum (int_tok n))
    | PSlice l => option_map JArr (sequence (map marshal l))
    | PObj m => option_map JObj (sequence (map (fun kv => option_map (pair (fst kv)) (marshal (snd kv))) m))
    | PMap m => option_map (fun kvs => JObj (sort_keys kvs))
                 (sequence (map (fun kv => option_map (pair (fst kv)) (marshal (snd kv))) m))
    end.
End Marshal.

(* ---------- decodeElement (repaired JSONStringToElement): token stream -> element ---------- *)
Section Decode.
  Variable num_val : numtok -> option Z.     (* number token -> float64 bits; None = out of range *)

  Fixpoint decode_element (v : jv) : option elem :=
    match v with
    | JNull => Some (build_scalar PNil)
    | JBool b => Some (build_scalar (PBool b))
    | JStr s => Some (build_scalar (PStr s))
    | JNum t => option_map (fun b => build_scalar (PFloat b)) (num_val t)
    | JArr l => option_map EArr (sequence (map decode_element l))
    | JObj m => option_map (fun kvs => EDict (hm_of_pairs kvs))
                  (sequence (map (fun kv => option_map (pair (fst kv)) (decode_element (snd kv))) m))
    end.
End Decode.

(* ---------- entry points ---------- *)
Inductive outcome :=
| Value (e : elem)
| Exception            (* value.ThrowException: an exception signal carrying a 异常 value — what 拦截异常 catches *)
| ParamError           (* zerr runtime error from ValidateExactParams *)
| Crash                (* a Go panic *)
| OutOfFuel.

Definition catchable (o : outcome) : bool := match o with Exception => true | _ => false end.

Section Api.
  Variable fmt_num : Z -> option numtok.
  Variable num_val : numtok -> option Z.

  (* HashMapToJSONString *)
  Definition hashmap_to_json_string (m : list (list Z * elem)) : outcome :=
    match marshal fmt_num (fun x => x) (build_plain (EDict m)) with
    | Some j => Value (EStr (render j))
    | None => Exception
    end.

  (* JSONStringToElement *)
  Definition json_string_to_element (t : list Z) : outcome :=
    match parse_text t with
    | PFuel => OutOfFuel
    | PErr => Exception
    | POk v _ =>
      match decode_element num_val v with
      | None => Exception
      | Some (EDict m) => Value (EDict m)
      | Some ENull => Value (EDict [])            (* `null` stores nothing into the map *)
      | Some _ => Exception                        (* top level must be an object *)
      end
    end.

  (* FN_parseJson / FN_generateJson: ValidateExactParams, then the (now safe) type assertion *)
  Definition fn_parse_json (args : list elem) : outcome :=
    match args with
    | [EStr t] => json_string_to_element t
    | _ => ParamError
    end.

  Definition fn_generate_json (args : list elem) : outcome :=
    match args with
    | [EDict m] => hashmap_to_json_string m
    | _ => ParamError
    end.
End Api.
