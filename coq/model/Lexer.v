(* C03/C05 - executable model of the lexer driver: pkg/syntax/lexer.go (PreNextToken, parseBeginLex, parseLine,
   setIndentType, Next/Peek cursor arithmetic, Lines) and zh.NextToken's dispatch with comments (tokens.go 190-249,
   541-682).  Definitions only.

   State as in model/Tokenize.v (C04): (pos, rest) with rest = skipn pos Source; reading past the end gives g_RuneEOF
   and the cursor keeps growing.  Reused: LexerTok.generic_token (= model/Tokenize.v of C04) (punctuation, operators, keywords, identifiers),
   Tokenize.varquote_loop, Tokenize.skip_ws (C04) and StringLit.ps_loop (C13: parseString + backtick escapes).

   REPAIRED CODE: fixes/C03-4 (注： directly followed by a line break or the end of text), fixes/C05-1 (escape scanner
   never steps over the end of text; in StringLit), fixes/C13-1 (RuneEOF is not a character).
   Go operations that can panic: the LineText slices of parseLine / parseEOF (Crash when out of range). *)
From Coq Require Import List ZArith Bool.
Import ListNotations.
From Zn.gen Require Import GenFrontTokens.
From Zn.model Require Import LexerTok.
From Zn.model Require StringLit.
Open Scope Z_scope.

Definition EOFc : Z := g_RuneEOF.
Definition curc (r : list Z) : Z := hd EOFc r.
Definition peekc (k : nat) (r : list Z) : Z := nth k r EOFc.

Record line := mkLine { l_indents : Z; l_start : Z }.
Record lstate := mkL { pos : Z; rest : list Z; itype : Z; lines : list line; slen : Z }.
Record token := mkTok { t_ty : Z; t_lit : list Z; t_s : Z; t_e : Z }.

Inductive lres (A : Type) :=
| LOk (a : A) (st : lstate)
| LErr (code cursor : Z)
| LCrash
| LFuel.
Arguments LOk {A}. Arguments LErr {A}. Arguments LCrash {A}. Arguments LFuel {A}.

(* error codes of pkg/error/syntax_error.go *)
Definition ErrInvalidSyntax : Z := 20.
Definition ErrUnexpectedIndent : Z := 21.
Definition ErrMustTypeID : Z := 22.
Definition ErrInvalidIndent : Z := 23.
Definition ErrInvalidIndentSpaceCount : Z := 24.
Definition ErrInvalidChar : Z := 25.
Definition ErrIncompleteString : Z := 27.

Definition set_pos_rest (st : lstate) (p : Z) (r : list Z) : lstate := mkL p r (itype st) (lines st) (slen st).
Definition set_lines (st : lstate) (ls : list line) : lstate := mkL (pos st) (rest st) (itype st) ls (slen st).
Definition set_itype (st : lstate) (t : Z) : lstate := mkL (pos st) (rest st) t (lines st) (slen st).
Definition nextc (st : lstate) : lstate := set_pos_rest st (pos st + 1) (tl (rest st)).   (* l.Next() *)

Definition is_break (c : Z) : bool := (c =? g_RuneCR) || (c =? g_RuneLF).
Definition is_pair (a b : Z) : bool := ((a =? g_RuneCR) && (b =? g_RuneLF)) || ((a =? g_RuneLF) && (b =? g_RuneCR)).
Definition is_indent_char (c : Z) : bool := (c =? g_RuneSP) || (c =? g_RuneTAB).

(* lexer.go:178-214; the error cursor is l.cursor *)
Definition set_indent_type (count ch : Z) (st : lstate) : lres Z :=
  let t := if ch =? g_RuneTAB then g_IndentTab else if ch =? g_RuneSP then g_IndentSpace else g_IndentUnknown in
  if t =? g_IndentUnknown then
    if (0 <? count) && negb (itype st =? t) then LErr ErrInvalidIndent (pos st)
    else LOk (if itype st =? g_IndentSpace then count / 4 else count) st
  else
    let it := if itype st =? g_IndentUnknown then t else itype st in
    if (t =? g_IndentSpace) && negb (count mod 4 =? 0) then LErr ErrInvalidIndentSpaceCount (pos st)
    else if negb (it =? t) then LErr ErrInvalidIndent (pos st)
    else LOk (if it =? g_IndentSpace then count / 4 else count) (set_itype st it).

(* `count := 1; for l.Next() == ch { count++ }` : r = characters after the cursor, p = cursor *)
Fixpoint run_same (ch : Z) (r : list Z) (p count : Z) : list Z * Z * Z :=
  match r with
  | c :: r' => if c =? ch then run_same ch r' (p + 1) (count + 1) else (r, p + 1, count)
  | [] => ([], p + 1, count)
  end.

Fixpoint set_last_indent (n : Z) (ls : list line) : list line :=
  match ls with
  | [] => []
  | [l] => [mkLine n (l_start l)]
  | l :: r => l :: set_last_indent n r
  end.

(* lastLine.LineText = l.Source[startIdx:endCursor] (lexer.go:272-283, tokens.go:668-680): in range? *)
Definition line_text_ok (st : lstate) (endc : Z) : bool :=
  match lines st with
  | [] => true
  | _ =>
      let ln := last (lines st) (mkLine 0 0) in
      let s := l_start ln + (if itype st =? g_IndentSpace then 4 * l_indents ln
                             else if itype st =? g_IndentTab then l_indents ln else 0) in
      (0 <=? s) && (s <=? endc) && (endc <=? slen st)
  end.

(* the indentation of the line that starts at the cursor: (state after the run, count) *)
Definition count_indent (st : lstate) : lstate * Z :=
  let ch := curc (rest st) in
  match rest st with
  | [] => (st, 0)
  | _ :: r =>
      if is_indent_char ch then
        let '(r', p', c) := run_same ch r (pos st) 1 in (set_pos_rest st p' r', c)
      else (st, 0)
  end.

(* lexer.go:216-247 *)
Definition parse_begin_lex (st : lstate) : lres unit :=
  match rest st with
  | [] => LOk tt st
  | ch :: _ =>
      if ch =? EOFc then LOk tt st
      else
        let st1 := set_lines st (lines st ++ [mkLine 0 0]) in
        if is_indent_char ch then
          let '(st2, count) := count_indent st1 in
          match set_indent_type count ch st2 with
          | LOk n st3 => LOk tt (set_lines st3 (set_last_indent n (lines st3)))
          | LErr c k => LErr c k
          | LCrash => LCrash
          | LFuel => LFuel
          end
        else LOk tt st1
  end.

(* lexer.go:261-318 with withIndent = true; entered with the cursor on CR or LF *)
Fixpoint parse_line (fuel : nat) (st : lstate) : lres unit :=
  match fuel with
  | O => LFuel
  | S f =>
      let ch := curc (rest st) in
      let endc := pos st in
      let st1 := nextc st in
      let chn := curc (rest st1) in
      let st2 := if is_pair ch chn then nextc st1 else st1 in
      let chn2 := curc (rest st2) in
      if negb (line_text_ok st endc) then LCrash
      else
        let st3 := set_lines st2 (lines st2 ++ [mkLine 0 (pos st2)]) in
        let '(st4, count) := count_indent st3 in
        match set_indent_type count chn2 st4 with
        | LOk n st5 =>
            let st6 := set_lines st5 (set_last_indent n (lines st5)) in
            if is_break (curc (rest st6)) then parse_line f st6 else LOk tt st6
        | LErr c k => LErr c k
        | LCrash => LCrash
        | LFuel => LFuel
        end
  end.

(* lexer.go:145-162 *)
Fixpoint pre_next_token (fuel : nat) (st : lstate) : lres unit :=
  match fuel with
  | O => LFuel
  | S f =>
      let ch := curc (rest st) in
      match rest st with
      | [] => LOk tt st
      | _ =>
          if is_ws ch then
            let '(r', p') := skip_ws (rest st) (pos st) in pre_next_token f (set_pos_rest st p' r')
          else if is_break ch then
            match parse_line (S (length (rest st))) st with
            | LOk _ st' => pre_next_token f st'
            | e => e
            end
          else LOk tt st
      end
  end.

(* ------------------------------------------------------------------ comments (tokens.go:541-664, repaired by C03-4) *)
(* the scanning loop `for { ch = l.Next(); switch ch {...} }`: r = characters not yet examined, p = index of hd r.
   Result: EndIdx, the input from EndIdx on, the Lines appended *)
Fixpoint scan_comment (r : list Z) (p : Z) (cty q : Z) (ls : list line) : Z * list Z * list line :=
  match r with
  | [] => (p, [], ls)
  | c :: r' =>
      if c =? EOFc then (p, r, ls)
      else if is_break c then
        if cty =? g_commentTypeSingle then (p, r, ls)
        else match r' with
             | c2 :: r'' =>
                 if is_pair c c2 then scan_comment r'' (p + 2) cty q (ls ++ [mkLine 0 (p + 2)])
                 else scan_comment r' (p + 1) cty q (ls ++ [mkLine 0 (p + 1)])
             | [] => scan_comment r' (p + 1) cty q (ls ++ [mkLine 0 (p + 1)])
             end
      else if c =? g_LeftDoubleQuoteI then
        scan_comment r' (p + 1) cty (if cty =? g_commentTypeQuoteI then q + 1 else q) ls
      else if c =? g_LeftDoubleQuoteII then
        scan_comment r' (p + 1) cty (if cty =? g_commentTypeQuoteII then q + 1 else q) ls
      else if (c =? g_RightDoubleQuoteI) && (cty =? g_commentTypeQuoteI) then
        if q - 1 =? 0 then (p + 1, r', ls) else scan_comment r' (p + 1) cty (q - 1) ls
      else if (c =? g_RightDoubleQuoteII) && (cty =? g_commentTypeQuoteII) then
        if q - 1 =? 0 then (p + 1, r', ls) else scan_comment r' (p + 1) cty (q - 1) ls
      else if (c =? g_MultiplyOp) && (cty =? g_commentTypeSlash) && (curc r' =? g_SlashOp) then
        (p + 2, tl r', ls)
      else scan_comment r' (p + 1) cty q ls
  end.

Fixpoint skip_digits_p (r : list Z) (p : Z) : list Z * Z :=
  match r with
  | c :: r' => if is_pure_number c then skip_digits_p r' (p + 1) else (r, p)
  | [] => ([], p)
  end.

(* Some (comment token, state) or None = not a comment (the caller goes back to the savepoint) *)
Definition parse_comment (st : lstate) : option (token * lstate) :=
  let r := rest st in
  let p := pos st in
  let fin (x : Z * list Z * list line) :=
      let '(e, r', ls) := x in
      Some (mkTok g_TypeComment [] p e, mkL e r' (itype st) (lines st ++ ls) (slen st)) in
  if curc r =? g_CharZHU then
    let '(r1, p1) := skip_digits_p (tl r) (p + 1) in
    if curc r1 =? g_Colon then
      let pk := peekc 1 r1 in
      if pk =? g_LeftDoubleQuoteI then fin (scan_comment (tl (tl r1)) (p1 + 2) g_commentTypeQuoteI 1 [])
      else if pk =? g_LeftDoubleQuoteII then fin (scan_comment (tl (tl r1)) (p1 + 2) g_commentTypeQuoteII 1 [])
      else fin (scan_comment (tl r1) (p1 + 1) g_commentTypeSingle 0 [])
    else None
  else if curc r =? g_SlashOp then
    let pk := peekc 1 r in
    if pk =? g_SlashOp then fin (scan_comment (tl (tl r)) (p + 2) g_commentTypeSingle 0 [])
    else if pk =? g_MultiplyOp then fin (scan_comment (tl (tl r)) (p + 2) g_commentTypeSlash 0 [])
    else None
  else None.

(* tokens.go:666-682 *)
Definition parse_eof (st : lstate) : lres token :=
  if line_text_ok st (pos st) then LOk (mkTok g_TypeEOF [] (pos st) (pos st)) st else LCrash.

Definition conv (t : tres) (st : lstate) : lres token :=
  match t with
  | TTok ty s e l r' => LOk (mkTok ty l s e) (set_pos_rest st e r')
  | TErr c => LErr ErrInvalidChar c
  | TEof _ => parse_eof st
  | TUnsupported => LCrash
  | THang => LFuel
  end.

(* tokens.go:401-459 through the C13 model *)
Definition parse_string (st : lstate) : lres token :=
  let r := rest st in
  let p := pos st in
  match StringLit.ps_loop (S (length r)) (curc r) 1 [] [] p (tl r) with
  | StringLit.LexOk ty l e starts =>
      LOk (mkTok ty l p e)
          (mkL e (skipn (Z.to_nat (e - p)) r) (itype st) (lines st ++ map (mkLine 0) starts) (slen st))
  | StringLit.LexErr c k => LErr c k
  | StringLit.OutOfFuel => LFuel
  end.

(* zh.NextToken (tokens.go:190-249) *)
Definition next_token (st0 : lstate) : lres token :=
  match pre_next_token (S (length (rest st0))) st0 with
  | LOk _ st =>
      let r := rest st in
      let p := pos st in
      let ch := curc r in
      match r with
      | [] => parse_eof st
      | _ =>
          if ch =? EOFc then parse_eof st
          else if (ch =? g_CharZHU) || (ch =? g_SlashOp) then
            match parse_comment st with
            | Some (tk, st') => LOk tk st'
            | None => conv (generic_token gkw r p) st
            end
          else if mem ch left_quotes then parse_string st
          else if ch =? g_BackTick then conv (varquote_loop p (tl r) (p + 1) []) st
          else conv (generic_token gkw r p) st
      end
  | LErr c k => LErr c k
  | LCrash => LCrash
  | LFuel => LFuel
  end.

(* NewLexer + the first PreNextToken's parseBeginLex *)
Definition lex_init (src : list Z) : lres unit :=
  parse_begin_lex (mkL 0 src g_IndentUnknown [] (Z.of_nat (length src))).

(* ------------------------------------------------------------------ the token stream (for the lexer-level tie) *)
Fixpoint lex_all (fuel : nat) (st : lstate) (acc : list token) : list token * lres unit :=
  match fuel with
  | O => (rev acc, LFuel)
  | S f =>
      match next_token st with
      | LOk tk st' => if t_ty tk =? g_TypeEOF then (rev (tk :: acc), LOk tt st') else lex_all f st' (tk :: acc)
      | LErr c k => (rev acc, LErr c k)
      | LCrash => (rev acc, LCrash)
      | LFuel => (rev acc, LFuel)
      end
  end.

Definition enc_lines (ls : list line) : list Z := flat_map (fun l => [l_indents l; l_start l]) ls.

(* [[status; code; cursor; indentType]; lines; [type; start; end; literal...] ...] *)
Definition lex_encode (src : list Z) : list (list Z) :=
  match lex_init src with
  | LOk _ st0 =>
      let '(toks, r) := lex_all (S (S (length src))) st0 [] in
      let tl_ := map (fun t => t_ty t :: t_s t :: t_e t :: t_lit t) toks in
      match r with
      | LOk _ st => [0; 0; 0; itype st] :: enc_lines (lines st) :: tl_
      | LErr c k => [1; c; k; 0] :: [] :: tl_
      | LCrash => [2; 0; 0; 0] :: [] :: tl_
      | LFuel => [3; 0; 0; 0] :: [] :: tl_
      end
  | LErr c k => [[1; c; k; 0]; []]
  | LCrash => [[2; 0; 0; 0]; []]
  | LFuel => [[3; 0; 0; 0]; []]
  end.
