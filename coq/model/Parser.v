(* C03/C05 - executable model of the parser: pkg/syntax/zh/zh_parser.go (token buffer P1/P2 with line indices,
   stmtCompleteFlag, tryConsume/consume, meetStmtLineBreak, expectBlockIndent) and pkg/syntax/zh/zh_ast.go (all Parse*
   productions, parseItemListBlock / parsePauseCommaList loops), pkg/syntax/parser.go (panic/recover = the Err result).
   Definitions only.  Every production is one constructor of [nt]; [parse fuel n] is the production applied to the
   parser state; each call of a production from another costs one unit of fuel, [Fuel] (out of fuel) is distinct
   from every other result, Go panics other than the error channel are [Crash].

   REPAIRED CODE: fixes/C03-1 (the 拦截 state of ParseExecBlock raises when no 拦截 follows), C03-2 (如果 at the end of
   input), C03-3 (block indent relative to the enclosing block: blockIndent), C05-3 (error constructors do not
   dereference a nil TokenP1).

   SECTION "expressions" (parseExpressionLv1..Lv4, ParseArithExpr, parseArithMulDivExpr, ParseMemberExpr,
   ParseBasicExpr) has the entry point [parse_expression fuel : M expr] for the expression-precedence property. *)
From Coq Require Import List ZArith Bool.
Import ListNotations.
From Zn.gen Require Import GenFrontTokens.
From Zn.model Require Import LexerTok Lexer Ast.
From Zn.model Require StringLit.
Open Scope Z_scope.

(* ------------------------------------------------------------------ state and result *)
Record pstate := mkP {
  lx : lstate;
  p1 : option token;  p2 : option token;            (* TokenP1 (current), TokenP2 (peek) *)
  sl1 : Z; el1 : Z; sl2 : Z; el2 : Z;               (* Start/EndLineIdxP1, Start/EndLineIdxP2 *)
  flag : bool;                                      (* stmtCompleteFlag *)
  bind_ : Z                                         (* blockIndent (fixes/C03-3) *)
}.

Inductive res (A : Type) :=
| Ok (a : A) (st : pstate)
| Err (code cursor : Z)       (* panic(err) recovered by Parser.Parse: one syntax error *)
| Crash                       (* any other Go panic *)
| Fuel.                       (* out of fuel *)
Arguments Ok {A}. Arguments Err {A}. Arguments Crash {A}. Arguments Fuel {A}.

Definition M (A : Type) : Type := pstate -> res A.
Definition ret {A} (a : A) : M A := fun st => Ok a st.
Definition bind {A B} (m : M A) (f : A -> M B) : M B :=
  fun st => match m st with
            | Ok a st' => f a st'
            | Err c k => Err c k
            | Crash => Crash
            | Fuel => Fuel
            end.
Notation "x <- m ;; k" := (bind m (fun x => k)) (at level 61, m at next level, right associativity).
Notation "m ;;; k" := (bind m (fun _ => k)) (at level 61, right associativity).

Definition set_flag (b : bool) : M unit :=
  fun st => Ok tt (mkP (lx st) (p1 st) (p2 st) (sl1 st) (el1 st) (sl2 st) (el2 st) b (bind_ st)).
Definition set_bind (i : Z) : M unit :=
  fun st => Ok tt (mkP (lx st) (p1 st) (p2 st) (sl1 st) (el1 st) (sl2 st) (el2 st) (flag st) i).
Definition get_bind : M Z := fun st => Ok (bind_ st) st.

(* ------------------------------------------------------------------ zh_parser.go *)
(* Lexer.FindLineIdx (lexer.go:118-127) *)
Fixpoint find_line_idx_aux (ls : list line) (i cursor : Z) : Z :=
  match ls with
  | [] => i
  | l :: r => if cursor <? l_start l then i else find_line_idx_aux r (i + 1) cursor
  end.
Definition find_line_idx (ls : list line) (cursor start : Z) : Z :=
  find_line_idx_aux (skipn (Z.to_nat (start + 1)) ls) start cursor.

Definition line_indent (ls : list line) (i : Z) : Z :=
  match nth_error ls (Z.to_nat i) with Some l => l_indents l | None => 0 end.
Definition peek_indent (st : pstate) : Z := line_indent (lines (lx st)) (sl2 st).   (* getPeekIndent *)

Definition tok_ty (o : option token) : Z := match o with Some t => t_ty t | None => -1 end.
Definition peek_ty (st : pstate) : Z := tok_ty (p2 st).

Definition peek_start (st : pstate) : Z :=
  match p2 st with Some t => t_s t | None => match p1 st with Some t => t_s t | None => 0 end end.
Definition curr_start (st : pstate) : Z :=
  match p1 st with Some t => t_s t | None => peek_start st end.
Definition fail_peek {A} (code : Z) : M A := fun st => Err code (peek_start st).
Definition fail_curr {A} (code : Z) : M A := fun st => Err code (curr_start st).

(* meetStmtLineBreak (zh_parser.go:145-191) *)
Definition meet_line_break (st : pstate) : bool :=
  match p1 st, p2 st with
  | Some c, Some p =>
      if (t_ty c =? g_TypeEOF) || (t_ty p =? g_TypeEOF) then true
      else if el1 st <? sl2 st then
        if mem (t_ty c) [g_TypeCommaSep; g_TypePauseCommaSep; g_TypeStmtQuoteL; g_TypeArrayQuoteL; g_TypeFuncCall; g_TypeFuncDeclare]
        then false
        else if mem (t_ty p) [g_TypeArrayQuoteR; g_TypeStmtQuoteR] then false
        else true
      else false
  | _, _ => false
  end.

(* skip comment tokens *)
Fixpoint lex_skip_comments (fuel : nat) (l : lstate) : lres token :=
  match fuel with
  | O => LFuel
  | S f =>
      match next_token l with
      | LOk tk l' => if t_ty tk =? g_TypeComment then lex_skip_comments f l' else LOk tk l'
      | e => e
      end
  end.

(* ParserZH.next (zh_parser.go:53-84) *)
Definition p_next : M unit :=
  fun st =>
    match lex_skip_comments (S (length (rest (lx st)))) (lx st) with
    | LOk tk l' =>
        let s2 := find_line_idx (lines l') (t_s tk) (sl2 st) in
        let e2 := find_line_idx (lines l') (t_e tk) (el2 st) in
        let st' := mkP l' (p2 st) (Some tk) (sl2 st) (el2 st) s2 e2 (flag st) (bind_ st) in
        if meet_line_break st' then set_flag true st' else Ok tt st'
    | LErr c k => Err c k
    | LCrash => Crash
    | LFuel => Fuel
    end.

(* tryConsume (zh_parser.go:214-234): one optional comma is skipped, then the flag is tested *)
Definition try_tail (valid : list Z) : M (option token) :=
  fun st =>
    match p2 st with
    | None => Crash
    | Some tk =>
        if flag st then Ok None st
        else if mem (t_ty tk) valid then (p_next ;;; ret (Some tk)) st
        else Ok None st
    end.
Definition tc (valid : list Z) : M (option token) :=
  fun st =>
    match p2 st with
    | None => Crash
    | Some tk => if t_ty tk =? g_TypeCommaSep then (p_next ;;; try_tail valid) st else try_tail valid st
    end.
Definition consume (valid : list Z) : M unit :=
  o <- tc valid ;; match o with Some _ => ret tt | None => fail_peek ErrInvalidSyntax end.

(* expectBlockIndent (repaired: relative to the indent of the enclosing block) *)
Definition expect_block_indent (base : Z) : M (option Z) :=
  fun st => let pi := peek_indent st in if pi =? base + 1 then Ok (Some pi) st else Ok None st.

Definition text_of (t : token) : lit := StringLit.to_text (t_lit t).      (* PrimeExpr.SetLiteral: string(runes) *)

Definition parse_id : M lit :=                                            (* parseID / parseFuncID *)
  o <- tc [g_TypeIdentifier] ;; match o with Some tk => ret (text_of tk) | None => fail_peek ErrInvalidSyntax end.

(* the loop test of parseItemListBlock *)
Definition block_goes_on (ind : Z) (st : pstate) : bool := negb (peek_ty st =? g_TypeEOF) && (peek_indent st =? ind).
(* `p.stmtCompleteFlag || p.meetStmtBreak()` *)
Definition stmt_done (st : pstate) : bool :=
  flag st || (peek_ty st =? g_TypeStmtSep) || (peek_ty st =? g_TypeEOF).
Definition require_stmt_done : M unit :=
  fun st => if stmt_done st then Ok tt st else Err ErrInvalidSyntax (peek_start st).

(* ------------------------------------------------------------------ tables of zh_ast.go *)
Definition lv3_types : list Z :=
  [g_TypeLogicEqualW; g_TypeEqualMark; g_TypeLogicNotEqW; g_TypeNEMark; g_TypeLogicGtW; g_TypeGTMark; g_TypeLogicGteW;
   g_TypeGTEMark; g_TypeLogicLtW; g_TypeLTMark; g_TypeLogicLteW; g_TypeLTEMark; g_TypeLogicYesW; g_TypeLogicNoW].
Definition logic_type (t : Z) : Z :=
  if (t =? g_TypeLogicEqualW) || (t =? g_TypeEqualMark) then 4
  else if (t =? g_TypeLogicNotEqW) || (t =? g_TypeNEMark) then 5
  else if (t =? g_TypeLogicGtW) || (t =? g_TypeGTMark) then 6
  else if (t =? g_TypeLogicGteW) || (t =? g_TypeGTEMark) then 7
  else if (t =? g_TypeLogicLtW) || (t =? g_TypeLTMark) then 8
  else if (t =? g_TypeLogicLteW) || (t =? g_TypeLTEMark) then 9
  else if t =? g_TypeLogicYesW then 10
  else if t =? g_TypeLogicNoW then 11 else 0.
Definition muldiv_type (t : Z) : Z :=
  if t =? g_TypeMultiply then 14 else if t =? g_TypeDivision then 15 else if t =? g_TypeIntDivMark then 16
  else if t =? g_TypeModuloMark then 17 else 0.
Definition stmt_types : list Z :=
  [g_TypeStmtSep; g_TypeDeclareW; g_TypeCondW; g_TypeFuncW; g_TypeReturnW; g_TypeWhileLoopW; g_TypeVarOneW; g_TypeIteratorW;
   g_TypeObjDefineW; g_TypeThrowErrorW; g_TypeBreakW; g_TypeContinueW].
Definition basic_types : list Z :=
  [g_TypeIdentifier; g_TypeString; g_TypeArrayQuoteL; g_TypeStmtQuoteL; g_TypeFuncQuoteL; g_TypeVarOneW].
Definition assignable (e : expr) : bool := match e with EId _ | EMember _ _ _ _ _ => true | _ => false end.

(* ------------------------------------------------------------------ productions *)
Inductive nt :=
(* expressions *)
| NExpr (mp : bool)                        (* parseExpressionLv1; mp = EqMarkConfig.AsMapSign (ParseExpressionMAP) *)
| NLv1Tail (mp : bool) (el : expr)
| NLv2 (mp : bool)
| NLv2Tail (mp : bool) (el : expr)
| NLv3 (mp : bool)
| NLv3Tail (mp : bool) (el : expr)
| NLv4 (mp : bool)
| NArith
| NArithTail (el : expr)
| NMulDiv
| NMulDivTail (el : expr)
| NMember
| NMemberTail (e : expr)
| NBasic
| NArray
| NArrayItems (acc : list expr)
| NMapItems (acc : list (expr * expr))
| NFuncCall (y : bool)
| NExprList (acc : list expr)              (* parsePauseCommaList of ParseExpression *)
| NMethodCall                              (* ParseMemberFuncCallExpr *)
| NChain (acc : list call)
| NObjNew
(* statements *)
| NStmt
| NVarDecl
| NVDPair
| NIdList (acc : list lit)                 (* parsePauseCommaList of parseID *)
| NVDBlock (ind : Z) (acc : list vdpair)
| NBranch (main hs : Z) (ifE : option expr) (ifB : option (list stmt)) (otherE : list expr) (otherB : list (list stmt))
| NWhile
| NBlock (ind : Z) (acc : list stmt)       (* ParseBlockStmt's parseItemListBlock *)
| NFuncBlock
| NExec (ind hs : Z) (ins : list lit) (ss : list stmt) (cs : list (lit * list stmt))
| NCatch
| NVarOne
| NIterRest (ids : list lit)
| NThrow
| NImport
| NClass
| NClassItems (ind : Z) (ps : list (lit * expr)) (ms gs : list (lit * Z * execblock))
| NProgram (ind hs : Z) (imps : list import) (x : option execblock).

Definition ty (n : nt) : Type :=
  match n with
  | NExpr _ | NLv1Tail _ _ | NLv2 _ | NLv2Tail _ _ | NLv3 _ | NLv3Tail _ _ | NLv4 _ | NArith | NArithTail _ | NMulDiv | NMulDivTail _
  | NMember | NMemberTail _ | NBasic | NArray | NArrayItems _ | NMapItems _ | NMethodCall | NObjNew => expr
  | NFuncCall _ => call
  | NExprList _ => list expr
  | NChain _ => list call
  | NStmt | NVarDecl | NBranch _ _ _ _ _ _ | NWhile | NVarOne | NIterRest _ | NThrow | NClass => stmt
  | NVDPair => vdpair
  | NIdList _ => list lit
  | NVDBlock _ _ => list vdpair
  | NBlock _ _ => list stmt
  | NFuncBlock => (lit * execblock)%type
  | NExec _ _ _ _ _ => execblock
  | NCatch => (lit * list stmt)%type
  | NImport => import
  | NClassItems _ _ _ _ => (list (lit * expr) * list (lit * Z * execblock) * list (lit * Z * execblock))%type
  | NProgram _ _ _ _ => program
  end.

Definition is_ty (o : option token) (t : Z) : bool := tok_ty o =? t.

Fixpoint parse (fuel : nat) (n : nt) {struct fuel} : M (ty n) :=
  match fuel with
  | O => fun _ => Fuel
  | S f =>
    match n as n0 return M (ty n0) with
    (* ---------------- expressions ---------------- *)
    | NExpr mp => el <- parse f (NLv2 mp) ;; parse f (NLv1Tail mp el)
    | NLv1Tail mp el =>
        o <- tc [g_TypeLogicOrW] ;;
        match o with
        | Some _ => r <- parse f (NLv2 mp) ;; parse f (NLv1Tail mp (ELogic 1 el r))
        | None => ret el
        end
    | NLv2 mp => el <- parse f (NLv3 mp) ;; parse f (NLv2Tail mp el)
    | NLv2Tail mp el =>
        o <- tc [g_TypeLogicAndW] ;;
        match o with
        | Some _ => r <- parse f (NLv3 mp) ;; parse f (NLv2Tail mp (ELogic 2 el r))
        | None => ret el
        end
    | NLv3 mp => el <- parse f (NLv4 mp) ;; parse f (NLv3Tail mp el)
    | NLv3Tail mp el =>
        o <- tc lv3_types ;;
        match o with
        | Some tk => r <- parse f (NLv4 mp) ;; parse f (NLv3Tail mp (ELogic (logic_type (t_ty tk)) el r))
        | None => ret el
        end
    | NLv4 mp =>
        l <- parse f NArith ;;
        o <- tc (g_TypeAssignW :: (if mp then [] else [g_TypeAssignMark])) ;;
        match o with
        | Some _ =>
            if assignable l then r <- parse f NArith ;; ret (EAssign l r)
            else fail_peek ErrMustTypeID
        | None => ret l
        end
    | NArith => el <- parse f NMulDiv ;; parse f (NArithTail el)
    | NArithTail el =>
        o <- tc [g_TypePlus; g_TypeMinus] ;;
        match o with
        | Some tk => r <- parse f NMulDiv ;; parse f (NArithTail (EArith (if t_ty tk =? g_TypeMinus then 13 else 12) el r))
        | None => ret el
        end
    | NMulDiv => el <- parse f NMember ;; parse f (NMulDivTail el)
    | NMulDivTail el =>
        o <- tc [g_TypeMultiply; g_TypeDivision; g_TypeIntDivMark; g_TypeModuloMark] ;;
        match o with
        | Some tk => r <- parse f NMember ;; parse f (NMulDivTail (EArith (muldiv_type (t_ty tk)) el r))
        | None => ret el
        end
    | NMember =>
        o <- tc [g_TypeObjThisW] ;;
        match o with
        | Some _ =>
            o2 <- tc [g_TypeIdentifier] ;;
            match o2 with
            | Some tk => parse f (NMemberTail (EMember None RootTypeProp MemberID (Some (text_of tk)) None))
            | None => fail_peek ErrInvalidSyntax
            end
        | None => root <- parse f NBasic ;; parse f (NMemberTail root)
        end
    | NMemberTail e =>
        o <- tc [g_TypeMapHash; g_TypeObjDotW; g_TypeObjDotIIW] ;;
        match o with
        | None => ret e
        | Some tk =>
            if t_ty tk =? g_TypeMapHash then
              o2 <- tc [g_TypeIdentifier; g_TypeString; g_TypeStmtQuoteL] ;;
              match o2 with
              | None => fail_peek ErrInvalidSyntax
              | Some tk2 =>
                  if t_ty tk2 =? g_TypeIdentifier then
                    parse f (NMemberTail (EMember (Some e) RootTypeExpr MemberIndex None (Some (EId (text_of tk2)))))
                  else if t_ty tk2 =? g_TypeString then
                    parse f (NMemberTail (EMember (Some e) RootTypeExpr MemberIndex None (Some (EStr (text_of tk2)))))
                  else
                    idx <- parse f (NExpr false) ;;
                    consume [g_TypeStmtQuoteR] ;;;
                    parse f (NMemberTail (EMember (Some e) RootTypeExpr MemberIndex None (Some idx)))
              end
            else
              o2 <- tc [g_TypeIdentifier] ;;
              match o2 with
              | Some tk2 => parse f (NMemberTail (EMember (Some e) RootTypeExpr MemberID (Some (text_of tk2)) None))
              | None => fail_peek ErrInvalidSyntax
              end
        end
    | NBasic =>
        o <- tc basic_types ;;
        match o with
        | None => fail_peek ErrInvalidSyntax
        | Some tk =>
            let t := t_ty tk in
            if t =? g_TypeIdentifier then ret (EId (text_of tk))
            else if t =? g_TypeString then ret (EStr (text_of tk))
            else if t =? g_TypeArrayQuoteL then parse f NArray
            else if t =? g_TypeStmtQuoteL then e <- parse f (NExpr false) ;; consume [g_TypeStmtQuoteR] ;;; ret e
            else if t =? g_TypeFuncQuoteL then
              o2 <- tc [g_TypeObjNewW] ;;
              match o2 with
              | Some _ => parse f NObjNew
              | None => c <- parse f (NFuncCall true) ;; ret (ECall c)
              end
            else parse f NMethodCall
        end
    | NArray =>
        o <- tc [g_TypeArrayQuoteR; g_TypeAssignMark] ;;
        match o with
        | Some tk =>
            if t_ty tk =? g_TypeArrayQuoteR then ret (EArray [])
            else consume [g_TypeArrayQuoteR] ;;; ret (EHashMap [])
        | None =>
            e1 <- parse f (NExpr true) ;;
            o2 <- tc [g_TypeAssignMark; g_TypeArrayQuoteR] ;;
            match o2 with
            | Some tk =>
                if t_ty tk =? g_TypeArrayQuoteR then ret (EArray [e1])
                else r <- parse f (NExpr true) ;; set_flag false ;;; parse f (NMapItems [(e1, r)])
            | None => parse f (NArrayItems [e1])
            end
        end
    | NArrayItems acc =>
        e <- parse f (NExpr true) ;;
        o <- tc [g_TypeArrayQuoteR] ;;
        match o with
        | Some _ => ret (EArray (acc ++ [e]))
        | None => parse f (NArrayItems (acc ++ [e]))
        end
    | NMapItems acc =>
        o <- tc [g_TypeArrayQuoteR] ;;
        match o with
        | Some _ => ret (EHashMap acc)
        | None =>
            l <- parse f (NExpr true) ;;
            consume [g_TypeAssignMark] ;;;
            r <- parse f (NExpr true) ;;
            set_flag false ;;;
            parse f (NMapItems (acc ++ [(l, r)]))
        end
    | NFuncCall y =>
        name <- parse_id ;;
        o <- tc [g_TypeFuncCall] ;;
        ps <- match o with Some _ => parse f (NExprList []) | None => ret [] end ;;
        consume [g_TypeFuncQuoteR] ;;;
        if y then
          o2 <- tc [g_TypeGetResultW] ;;
          match o2 with
          | Some _ => id <- parse_id ;; ret (Call name ps (Some id))
          | None => ret (Call name ps None)
          end
        else ret (Call name ps None)
    | NExprList acc =>
        e <- parse f (NExpr false) ;;
        o <- tc [g_TypePauseCommaSep] ;;
        match o with
        | Some _ => parse f (NExprList (acc ++ [e]))
        | None => ret (acc ++ [e])
        end
    | NMethodCall =>
        root <- parse f (NExpr false) ;;
        consume [g_TypeFuncQuoteL] ;;;
        c <- parse f (NFuncCall false) ;;
        chain <- parse f (NChain [c]) ;;
        o <- tc [g_TypeGetResultW] ;;
        match o with
        | Some _ => id <- parse_id ;; ret (EMethod root chain (Some id))
        | None => ret (EMethod root chain None)
        end
    | NChain acc =>
        o <- tc [g_TypePauseCommaSep] ;;
        match o with
        | None => ret acc
        | Some _ => consume [g_TypeFuncQuoteL] ;;; c <- parse f (NFuncCall false) ;; parse f (NChain (acc ++ [c]))
        end
    | NObjNew =>
        cls <- parse_id ;;
        o <- tc [g_TypeFuncCall] ;;
        match o with
        | Some _ => ps <- parse f (NExprList []) ;; consume [g_TypeFuncQuoteR] ;;; ret (ENew cls ps)
        | None => consume [g_TypeFuncQuoteR] ;;; ret (ENew cls [])
        end
    (* ---------------- statements ---------------- *)
    | NStmt =>
        set_flag false ;;;
        o <- tc stmt_types ;;
        match o with
        | None => e <- parse f (NExpr false) ;; require_stmt_done ;;; ret (SExpr e)
        | Some tk =>
            let t := t_ty tk in
            if t =? g_TypeStmtSep then ret SEmpty
            else
              s <- (if t =? g_TypeDeclareW then parse f NVarDecl
                    else if t =? g_TypeCondW then (b <- get_bind ;; parse f (NBranch b 0 None None [] []))
                    else if t =? g_TypeFuncW then
                      (o2 <- tc [g_TypeObjNewW] ;;
                       r <- parse f NFuncBlock ;;
                       ret (SFuncDecl (fst r) (match o2 with Some _ => 3 | None => 1 end) (snd r)))
                    else if t =? g_TypeReturnW then (e <- parse f (NExpr false) ;; ret (SReturn e))
                    else if t =? g_TypeWhileLoopW then parse f NWhile
                    else if t =? g_TypeVarOneW then parse f NVarOne
                    else if t =? g_TypeIteratorW then parse f (NIterRest [])
                    else if t =? g_TypeObjDefineW then parse f NClass
                    else if t =? g_TypeThrowErrorW then parse f NThrow
                    else if t =? g_TypeBreakW then ret SBreak
                    else ret SContinue) ;;
              require_stmt_done ;;; ret s
        end
    | NVarDecl =>
        o <- tc [g_TypeFuncCall] ;;
        match o with
        | Some _ =>
            b <- get_bind ;;
            oi <- expect_block_indent b ;;
            match oi with
            | None => fail_curr ErrInvalidSyntax
            | Some ind => ps <- parse f (NVDBlock ind []) ;; ret (SVarDecl ps)
            end
        | None => p <- parse f NVDPair ;; ret (SVarDecl [p])
        end
    | NVDPair =>
        ids <- (parse f (NIdList []) : M (list lit)) ;;
        o <- tc [g_TypeAssignW; g_TypeAssignMark; g_TypeAssignConstW] ;;
        match o with
        | None => fail_peek ErrInvalidSyntax
        | Some tk => e <- (parse f (NExpr false) : M expr) ;; ret ((if t_ty tk =? g_TypeAssignConstW then 3 else 1), ids, e)
        end
    | NIdList acc =>
        id <- parse_id ;;
        o <- tc [g_TypePauseCommaSep] ;;
        match o with
        | Some _ => parse f (NIdList (acc ++ [id]))
        | None => ret (acc ++ [id])
        end
    | NVDBlock ind acc =>
        fun st =>
          if block_goes_on ind st then
            (set_bind ind ;;; set_flag false ;;;
             o <- tc [g_TypeStmtSep] ;;
             match o with
             | Some _ => parse f (NVDBlock ind acc)
             | None => p <- parse f NVDPair ;; require_stmt_done ;;; parse f (NVDBlock ind (acc ++ [p]))
             end) st
          else Ok acc st
    | NBranch main hs ifE ifB otherE otherB =>
        fun st =>
          let done : M stmt := ret (SBranch ifE ifB None otherE otherB false) in
          (* one branch: [expr] : block, then fill in *)
          let branch (hs' : Z) : M stmt :=
              e <- (if hs' =? 2 then ret None else (x <- parse f (NExpr false) ;; ret (Some x))) ;;
              consume [g_TypeFuncCall] ;;;
              oi <- expect_block_indent main ;;
              match oi with
              | None => fail_peek ErrUnexpectedIndent
              | Some ind =>
                  blk <- parse f (NBlock ind []) ;;
                  if hs' =? 1 then parse f (NBranch main 1 e (Some blk) otherE otherB)
                  else if hs' =? 3 then
                    parse f (NBranch main 3 ifE ifB (otherE ++ match e with Some x => [x] | None => [] end) (otherB ++ [blk]))
                  else ret (SBranch ifE ifB (Some blk) otherE otherB true)
              end in
          if (hs =? 0) || negb (peek_ty st =? g_TypeEOF) then
            if hs =? 0 then branch 1 st
            else if negb (peek_indent st =? main) then done st
            else
              (set_flag false ;;;
               o <- tc [g_TypeCondElseW; g_TypeCondOtherW] ;;
               match o with
               | Some tk => branch (if t_ty tk =? g_TypeCondOtherW then 3 else 2)
               | None => set_flag true ;;; done
               end) st
          else done st
    | NWhile =>
        e <- parse f (NExpr false) ;;
        consume [g_TypeFuncCall] ;;;
        b <- get_bind ;;
        oi <- expect_block_indent b ;;
        match oi with
        | None => fail_peek ErrInvalidSyntax
        | Some ind => blk <- parse f (NBlock ind []) ;; ret (SWhile e blk)
        end
    | NBlock ind acc =>
        fun st =>
          if block_goes_on ind st then (set_bind ind ;;; s <- parse f NStmt ;; parse f (NBlock ind (acc ++ [s]))) st
          else Ok acc st
    | NFuncBlock =>
        id <- parse_id ;;
        consume [g_TypeFuncDeclare] ;;;
        b <- get_bind ;;
        oi <- expect_block_indent b ;;
        match oi with
        | None => fail_peek ErrUnexpectedIndent
        | Some ind => x <- (parse f (NExec ind 1 [] [] []) : M execblock) ;; ret (id, x)
        end
    | NExec ind hs ins ss cs =>
        fun st =>
          if block_goes_on ind st then
            (set_bind ind ;;;
             if hs =? 1 then
               o <- tc [g_TypeInputW] ;;
               match o with
               | Some _ => ids <- parse f (NIdList []) ;; parse f (NExec ind 1 (ins ++ ids) ss cs)
               | None => parse f (NExec ind 2 ins ss cs)
               end
             else if hs =? 2 then
               set_flag false ;;;
               o <- tc [g_TypeCatchErrorW] ;;
               match o with
               | Some _ => c <- parse f NCatch ;; parse f (NExec ind 3 ins ss (cs ++ [c]))
               | None => s <- parse f NStmt ;; parse f (NExec ind 2 ins (ss ++ [s]) cs)
               end
             else
               set_flag false ;;;
               o <- tc [g_TypeCatchErrorW] ;;
               match o with
               | Some _ => c <- parse f NCatch ;; parse f (NExec ind 3 ins ss (cs ++ [c]))
               | None => fail_peek ErrInvalidSyntax
               end) st
          else if (hs =? 2) || (hs =? 3) then Ok (XBlock ins ss cs) st
          else Err ErrInvalidSyntax (curr_start st)
    | NCatch =>
        cls <- parse_id ;;
        consume [g_TypeFuncCall] ;;;
        b <- get_bind ;;
        oi <- expect_block_indent b ;;
        match oi with
        | None => fail_peek ErrUnexpectedIndent
        | Some ind => blk <- (parse f (NBlock ind []) : M (list stmt)) ;; ret (cls, blk)
        end
    | NVarOne =>
        e1 <- parse f (NExpr false) ;;
        o <- tc [g_TypeIteratorW; g_TypeFuncQuoteL] ;;
        match o with
        | Some tk =>
            if t_ty tk =? g_TypeIteratorW then
              match e1 with
              | EId a => parse f (NIterRest [a])
              | _ => fail_peek ErrInvalidSyntax
              end
            else
              c <- parse f (NFuncCall false) ;;
              chain <- parse f (NChain [c]) ;;
              o2 <- tc [g_TypeGetResultW] ;;
              match o2 with
              | Some _ => id <- parse_id ;; ret (SExpr (EMethod e1 chain (Some id)))
              | None => ret (SExpr (EMethod e1 chain None))
              end
        | None =>
            consume [g_TypePauseCommaSep] ;;;
            e2 <- parse f (NExpr false) ;;
            o2 <- tc [g_TypeIteratorW] ;;
            match o2 with
            | Some _ =>
                match e1, e2 with
                | EId a, EId b => parse f (NIterRest [a; b])
                | _, _ => fail_peek ErrInvalidSyntax
                end
            | None => fail_peek ErrInvalidSyntax
            end
        end
    | NIterRest ids =>
        e <- parse f (NExpr false) ;;
        consume [g_TypeFuncCall] ;;;
        b <- get_bind ;;
        oi <- expect_block_indent b ;;
        match oi with
        | None => fail_peek ErrInvalidSyntax
        | Some ind => blk <- parse f (NBlock ind []) ;; ret (SIterate e ids blk)
        end
    | NThrow =>
        cls <- parse_id ;;
        consume [g_TypeFuncCall] ;;;
        ps <- parse f (NExprList []) ;;
        consume [g_TypeExceptionT] ;;;
        ret (SThrow cls ps)
    | NImport =>
        o <- tc [g_TypeLibString; g_TypeString] ;;
        match o with
        | None => fail_peek ErrInvalidSyntax
        | Some tk =>
            let lt := if t_ty tk =? g_TypeLibString then 1 else 2 in
            o2 <- tc [g_TypeObjDotW; g_TypeObjDotIIW] ;;
            match o2 with
            | None => ret (lt, text_of tk, [])
            | Some _ => ids <- (parse f (NIdList []) : M (list lit)) ;; ret (lt, text_of tk, ids)
            end
        end
    | NClass =>
        name <- parse_id ;;
        consume [g_TypeFuncCall] ;;;
        b <- get_bind ;;
        oi <- expect_block_indent b ;;
        match oi with
        | None => fail_peek ErrInvalidSyntax
        | Some ind => r <- parse f (NClassItems ind [] [] []) ;; ret (SClass name (fst (fst r)) (snd (fst r)) (snd r))
        end
    | NClassItems ind ps ms gs =>
        fun st =>
          if block_goes_on ind st then
            (set_bind ind ;;; set_flag false ;;;
             o <- tc [g_TypeFuncW; g_TypeGetterW; g_TypeObjThisW] ;;
             match o with
             | None => fail_peek ErrInvalidSyntax
             | Some tk =>
                 if t_ty tk =? g_TypeFuncW then
                   r <- parse f NFuncBlock ;; parse f (NClassItems ind ps (ms ++ [(fst r, 1, snd r)]) gs)
                 else if t_ty tk =? g_TypeGetterW then
                   r <- parse f NFuncBlock ;; parse f (NClassItems ind ps ms (gs ++ [(fst r, 2, snd r)]))
                 else
                   id <- parse_id ;;
                   consume [g_TypeAssignW; g_TypeAssignMark] ;;;
                   e <- parse f (NExpr false) ;;
                   parse f (NClassItems ind (ps ++ [(id, e)]) ms gs)
             end) st
          else Ok (ps, ms, gs) st
    | NProgram ind hs imps x =>
        fun st =>
          if block_goes_on ind st then
            (set_bind ind ;;; set_flag false ;;;
             if hs =? 1 then
               o <- tc [g_TypeImportW] ;;
               match o with
               | Some _ => i <- parse f NImport ;; parse f (NProgram ind 1 (imps ++ [i]) x)
               | None => parse f (NProgram ind 2 imps x)
               end
             else
               x' <- parse f (NExec ind 1 [] [] []) ;; parse f (NProgram ind 2 imps (Some x'))) st
          else Ok (mkProgram imps x) st
    end
  end.

(* entry point of the expression parser (ParseExpression) *)
Definition parse_expression (fuel : nat) : M expr := parse fuel (NExpr false).

(* ------------------------------------------------------------------ ParserZH.ParseAST + Parser.Parse *)
Definition init_pstate (l : lstate) : pstate := mkP l None None 0 0 0 0 false 0.

Inductive outcome :=
| OTree (p : program) (ls : list line) (it : Z)
| OErr (code cursor : Z)
| OCrash
| OFuel.

Definition compile (fuel : nat) (src : list Z) : outcome :=
  match lex_init src with
  | LOk _ l0 =>
      match (p_next ;;;
             (fun st => parse fuel (NProgram (peek_indent st) 1 [] None) st)) (init_pstate l0) with
      | Ok pg st =>
          if negb (peek_ty st =? g_TypeEOF) then OErr ErrInvalidSyntax (peek_start st)   (* the remaining token is the offending one *)
          else OTree pg (lines (lx st)) (itype (lx st))
      | Err c k => OErr c k
      | Crash => OCrash
      | Fuel => OFuel
      end
  | LErr c k => OErr c k
  | LCrash => OCrash
  | LFuel => OFuel
  end.

Definition default_fuel (src : list Z) : nat := (16 * length src + 64)%nat.

(* [[status; code; cursor; indentType]; lines; tree] *)
Definition compile_encode (src : list Z) : list (list Z) :=
  match compile (default_fuel src) src with
  | OTree pg ls it => [[1; 0; 0; it]; enc_lines ls; enc_program pg]
  | OErr c k => [[0; c; k; 0]; []; []]
  | OCrash => [[2; 0; 0; 0]; []; []]
  | OFuel => [[3; 0; 0; 0]; []; []]
  end.
